#!/bin/sh
# builds the gosmt engine offline from the module cache
cd /verif/engine && PATH=/opt/veriftools/go1.26.8/bin:$PATH GOTOOLCHAIN=local GOFLAGS=-mod=mod GOPROXY=off GOSUMDB=off go build -o /verif/bin/gosmt ./cmd/gosmt
