#!/bin/sh
# tools/try_seed.sh <patch> <Cxx> [more check ids...]: apply a seeded change to /repo, run the quick checks, undo it
patch="$1"; shift
cd /verif
git -C /repo apply "$patch" || { echo "patch does not apply"; exit 2; }
for id in "$@"; do
  cp evidence/$id.json out/evidence_$id.keep 2>/dev/null
  ./check "$id" quick > out/try_$id.log 2>&1; rc=$?
  echo "$id exit=$rc  violations=$(grep -c '^VIOLATION' out/try_$id.log) $(grep '^VIOLATION' out/try_$id.log | sed 's/.*replay=.*\/\(Verif[A-Za-z0-9_]*\)\..*/\1/' | sort -u | tr '\n' ' ')"
  cp out/evidence_$id.keep evidence/$id.json 2>/dev/null  # the evidence file must describe the unchanged tree
  grep "^BROKEN\|^INCONCLUSIVE\|^ENGINE-MISMATCH\|^VACUOUS" out/try_$id.log | cut -c1-200 | head -5
done
git -C /repo checkout -- .
