#!/bin/sh
# tools/confirm_seed.sh <Cxx>: confirm a seeded change produced by a sub-agent in $SEEDROOT/<Cxx> (default /tmp/seed)
# (change applied + demo test in place): demo fails with the change, suite passes with it, demo passes without it.
id="$1"; root="${SEEDROOT:-/tmp/seed}"; wt=$root/$id; cd "$wt" || exit 2
meta=seed/meta.json
demo=$(python3 -c "import json;print(json.load(open('$meta'))['demo_path'])" 2>/dev/null)
run=$(python3 -c "import json;print(json.load(open('$meta'))['demo_run'])" 2>/dev/null)
mkdir -p build
echo "== demo with change (expect FAIL)"; sh -c "$run" > $root/$id.demo_with.log 2>&1; echo "exit=$?"
mv "$demo" $root/$id.demo.go.keep
echo "== suite with change (expect ok)"; go test -vet=off -count=1 -timeout 25m ./... > $root/$id.suite.log 2>&1; echo "exit=$?"; grep -v "^ok\|no test files" $root/$id.suite.log | grep "^FAIL\|^---" | sort | uniq -c | head -20
cp $root/$id.demo.go.keep "$demo"
git apply -R seed/patch.diff || { echo "cannot revert patch"; exit 2; }
echo "== demo without change (expect PASS)"; sh -c "$run" > $root/$id.demo_without.log 2>&1; echo "exit=$?"
git apply seed/patch.diff
