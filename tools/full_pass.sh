#!/bin/sh
# tools/full_pass.sh [tier]: run every claimed check sequentially against /repo's current tree (regenerates evidence/)
cd /verif; tier="${1:-quick}"; log=out/full_pass_$tier.log; : > $log
for id in C01 C02 C03 C04 C05 C06 C07 C08 C09 C10 C11 C12 C13 C15 C16 C17 C18 C19 C20; do
  s=$(date +%s); ./check $id $tier > out/full_$id.log 2>&1; rc=$?
  echo "$id rc=$rc $(( $(date +%s) - s ))s $(grep "^$id $tier:" out/full_$id.log | cut -c1-160)" >> $log
done
echo done >> $log
