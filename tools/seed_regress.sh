#!/bin/sh
# tools/seed_regress.sh: apply every kept seeded change to /repo in turn, run the check(s) named in its meta.json, restore
cd /verif; log=out/seed_regress.log; : > $log
for d in seeded/*/; do
  n=$(basename $d); p=$d/patch.diff; [ -f $d/patch_rebased.diff ] && p=$d/patch_rebased.diff
  ids=$(python3 -c "import json,re,sys;m=json.load(open('$d/meta.json'));print(' '.join(sorted(set(re.findall(r'check (C\d\d)', m.get('detected_by',''))))))")
  [ -z "$ids" ] && ids=$(echo $n | cut -c1-3)
  echo "== $n ($ids)" >> $log
  tools/try_seed.sh /verif/$p $ids >> $log 2>&1
done
echo done >> $log
