#!/bin/sh
# tools/try_seed2.sh <root> <id> [check ids...]: apply <root>/<id>/seed/patch.diff to /repo, run the named checks (default: <id>), undo
root="$1"; id="$2"; shift 2; ids="$*"; [ -z "$ids" ] && ids="$id"
echo "== $id ($ids)"
/verif/tools/try_seed.sh $root/$id/seed/patch.diff $ids
