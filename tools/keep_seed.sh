#!/bin/sh
# tools/keep_seed.sh <Cxx> <name> "<caught by>" : store a confirmed seeded change under /verif/seeded/<name>/
id="$1"; name="$2"; caught="$3"; src=${SEEDROOT:-/tmp/seed}/$id/seed; dst=/verif/seeded/$name
mkdir -p "$dst"; cp $src/patch.diff "$dst/patch.diff"; cp $src/demo_test.go.txt "$dst/demo_test.go.txt"
python3 - "$src/meta.json" "$dst/meta.json" "$caught" "$id" <<'PY'
import json,sys
m=json.load(open(sys.argv[1]))
m['confirmed_by_me']={'ran':'tools/confirm_seed.sh %s in the scratch worktree: demo fails with the change, go test ./... passes with the change apart from the sandbox-flaky pkg/webservice HTTP tests that fail identically without it, demo passes after git apply -R'%sys.argv[4]}
m['detected_by']=sys.argv[3]
json.dump(m,open(sys.argv[2],'w'),indent=1)
PY
echo kept $dst
