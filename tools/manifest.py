#!/usr/bin/env python3
# regenerates /verif/MANIFEST.json from props/*.json (claimed checks) and tools/na.json (reasons for unclaimed properties)
import json, glob, os
os.chdir('/verif')
props=[json.loads(l) for l in open('properties.jsonl')]
na=json.load(open('tools/na.json'))
checks=[]; claimed=set()
for f in sorted(glob.glob('props/C*.json')):
    c=json.load(open(f))
    if not c.get('claimed'): continue
    claimed.add(c['id'])
    checks.append({
      "property_id":c['id'],
      "quick_cmd":"./check %s quick"%c['id'],
      "thorough_cmd":"./check %s thorough"%c['id'],
      "evidence_file":"/verif/evidence/%s.json"%c['id'],
      "replay_cmd_template":"./check %s --replay {path}"%c['id'],
      "engine":"gosmt",
      "level_claimed":{"category":c['level'],"text":c['level_text'],"design_ref":c.get('design_ref','DESIGN.md §4')},
      "level_note":c['level_note'],
      "technique":c.get('technique',"bounded symbolic execution of the real Go functions (go/ssa → SMT-LIB2), inductive step / product harnesses decided by z3 and cvc5, counterexamples replayed natively")})
m={"version":1,
 "setup_cmd":"/verif/build.sh",
 "hooks":{"guard":"verif","enable":"harness files (//go:build verif) are injected as go/packages and `go test -overlay` overlays; nothing is committed to /repo","baseline_off_cmd":"cd /repo && go test -vet=off -count=1 -timeout 25m ./...","source_commits":[],"add_only":True},
 "engines":[{"name":"gosmt","path":"/verif/engine","serves_properties":sorted(claimed),"kind_free_text":"bounded symbolic executor for Go over go/ssa (state merging, guarded heap) emitting SMT-LIB2 for z3 4.8.12 / z3 5.1.0 / cvc5; sat models are replayed natively with go test -overlay"}],
 "checks":checks,
 "notes":"Every check re-loads /repo's working tree, regenerates the encoding and rewrites its evidence file. Exit 2 = broken/inconclusive (NOT-ENCODABLE, ENGINE-MISMATCH, VACUOUS, solver unknown), never with a VIOLATION line. Genuine defects repaired by fix: commits are listed in known_findings.txt.",
 "not_applicable":[{"property_id":p['id'],"reason":na.get(p['id'],"check not built yet; see DESIGN.md")} for p in props if p['id'] not in claimed]}
json.dump(m,open('MANIFEST.json','w'),indent=1)
print("claimed:",sorted(claimed))
