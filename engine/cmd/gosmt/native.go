package main

// Native fallbacks: pure standard-library functions applied to concrete
// alternatives of their (string-ish) arguments by reflection.

import (
	"fmt"
	"go/token"
	"go/types"
	"reflect"
	"regexp"
	"strconv"
	"strings"
	"unicode"
	"unicode/utf8"

	"golang.org/x/tools/go/ssa"
)

var nativeFuncs = map[string]interface{}{
	"strings.Split":          strings.Split,
	"strings.SplitN":         strings.SplitN,
	"strings.Join":           strings.Join,
	"strings.HasPrefix":      strings.HasPrefix,
	"strings.HasSuffix":      strings.HasSuffix,
	"strings.TrimPrefix":     strings.TrimPrefix,
	"strings.TrimSuffix":     strings.TrimSuffix,
	"strings.TrimSpace":      strings.TrimSpace,
	"strings.Trim":           strings.Trim,
	"strings.TrimLeft":       strings.TrimLeft,
	"strings.TrimRight":      strings.TrimRight,
	"strings.ToLower":        strings.ToLower,
	"strings.ToUpper":        strings.ToUpper,
	"strings.EqualFold":      strings.EqualFold,
	"strings.Contains":       strings.Contains,
	"strings.ContainsAny":    strings.ContainsAny,
	"strings.ContainsRune":   strings.ContainsRune,
	"strings.Index":          strings.Index,
	"strings.IndexByte":      strings.IndexByte,
	"strings.IndexAny":       strings.IndexAny,
	"strings.LastIndex":      strings.LastIndex,
	"strings.LastIndexByte":  strings.LastIndexByte,
	"strings.Replace":        strings.Replace,
	"strings.ReplaceAll":     strings.ReplaceAll,
	"strings.Fields":         strings.Fields,
	"strings.Count":          strings.Count,
	"strings.Repeat":         strings.Repeat,
	"strings.Compare":        strings.Compare,
	"strings.Title":          strings.Title,
	"strings.Cut":            strings.Cut,
	"strconv.Itoa":           strconv.Itoa,
	"strconv.Atoi":           strconv.Atoi,
	"strconv.ParseInt":       strconv.ParseInt,
	"strconv.ParseUint":      strconv.ParseUint,
	"strconv.ParseBool":      strconv.ParseBool,
	"strconv.ParseFloat":     strconv.ParseFloat,
	"strconv.FormatInt":      strconv.FormatInt,
	"strconv.FormatUint":     strconv.FormatUint,
	"strconv.FormatBool":     strconv.FormatBool,
	"strconv.Quote":          strconv.Quote,
	"regexp.MustCompile":     regexp.MustCompile,
	"regexp.Compile":         regexp.Compile,
	"regexp.MatchString":     regexp.MatchString,
	"regexp.QuoteMeta":       regexp.QuoteMeta,
	"unicode.IsSpace":        unicode.IsSpace,
	"unicode.IsLetter":       unicode.IsLetter,
	"unicode.IsDigit":        unicode.IsDigit,
	"unicode.IsUpper":        unicode.IsUpper,
	"unicode.ToLower":        unicode.ToLower,
	"unicode/utf8.RuneCountInString": utf8.RuneCountInString,
	"unicode/utf8.ValidString":       utf8.ValidString,
	"(*regexp.Regexp).MatchString":          (*regexp.Regexp).MatchString,
	"(*regexp.Regexp).FindStringSubmatch":   (*regexp.Regexp).FindStringSubmatch,
	"(*regexp.Regexp).FindAllString":        (*regexp.Regexp).FindAllString,
	"(*regexp.Regexp).FindString":           (*regexp.Regexp).FindString,
	"(*regexp.Regexp).FindAllStringSubmatch": (*regexp.Regexp).FindAllStringSubmatch,
	"(*regexp.Regexp).ReplaceAllString":     (*regexp.Regexp).ReplaceAllString,
	"(*regexp.Regexp).String":               (*regexp.Regexp).String,
	"(*regexp.Regexp).SubexpNames":          (*regexp.Regexp).SubexpNames,
	"(*regexp.Regexp).NumSubexp":            (*regexp.Regexp).NumSubexp,
}

var errorType = reflect.TypeOf((*error)(nil)).Elem()

type argOpt struct {
	g *Term
	v reflect.Value
}

// toNative expands a symbolic value into concrete Go values of type rt.
func (x *Exec) toNative(v Value, rt reflect.Type) ([]argOpt, bool) {
	switch rt.Kind() {
	case reflect.String:
		s, ok := v.(VStr)
		if !ok {
			return nil, false
		}
		// equal texts reached along different paths are one alternative
		var out []argOpt
		idx := map[string]int{}
		for _, a := range s.alts {
			if k, ok := idx[a.s]; ok {
				out[k].g = mkOr(out[k].g, a.g)
				continue
			}
			idx[a.s] = len(out)
			out = append(out, argOpt{a.g, reflect.ValueOf(a.s).Convert(rt)})
		}
		return out, true
	case reflect.Int, reflect.Int8, reflect.Int16, reflect.Int32, reflect.Int64:
		i, ok := v.(VInt)
		if !ok || !i.t.isConst() {
			return nil, false
		}
		return []argOpt{{ts.True, reflect.ValueOf(i.t.sval()).Convert(rt)}}, true
	case reflect.Uint, reflect.Uint8, reflect.Uint16, reflect.Uint32, reflect.Uint64:
		i, ok := v.(VInt)
		if !ok || !i.t.isConst() {
			return nil, false
		}
		return []argOpt{{ts.True, reflect.ValueOf(i.t.c).Convert(rt)}}, true
	case reflect.Bool:
		b, ok := v.(VBool)
		if !ok || !b.t.isConst() {
			return nil, false
		}
		return []argOpt{{ts.True, reflect.ValueOf(b.t.isTrue())}}, true
	case reflect.Ptr:
		r, ok := v.(VRef)
		if !ok {
			return nil, false
		}
		var out []argOpt
		for _, a := range r.alts {
			if a.obj == nil || a.obj.native == nil {
				return nil, false
			}
			nv := reflect.ValueOf(a.obj.native)
			if !nv.Type().AssignableTo(rt) {
				return nil, false
			}
			out = append(out, argOpt{a.g, nv})
		}
		return out, true
	case reflect.Slice:
		s, ok := v.(VSlice)
		if !ok {
			return nil, false
		}
		cells, ln := x.sliceCells(s)
		if !ln.isConst() {
			return nil, false
		}
		n := int(ln.sval())
		sl := reflect.MakeSlice(rt, n, n)
		for k := 0; k < n; k++ {
			o, ok := x.toNative(cells[k], rt.Elem())
			if !ok || len(o) != 1 {
				return nil, false
			}
			sl.Index(k).Set(o[0].v)
		}
		return []argOpt{{ts.True, sl}}, true
	}
	return nil, false
}

func (x *Exec) fromNative(v reflect.Value, st types.Type) Value {
	rt := v.Type()
	if rt == errorType || (rt.Kind() == reflect.Interface && rt.Implements(errorType)) {
		if v.IsNil() {
			return nilIface()
		}
		return x.newError(concreteStr(v.Interface().(error).Error()))
	}
	switch rt.Kind() {
	case reflect.String:
		return concreteStr(v.String())
	case reflect.Int, reflect.Int8, reflect.Int16, reflect.Int32, reflect.Int64:
		w, _ := intWidth(st)
		return VInt{mkConstS(w, v.Int())}
	case reflect.Uint, reflect.Uint8, reflect.Uint16, reflect.Uint32, reflect.Uint64:
		w, _ := intWidth(st)
		return VInt{mkConst(w, v.Uint())}
	case reflect.Bool:
		return VBool{mkBool(v.Bool())}
	case reflect.Float64:
		return VFloat{mkFConst(v.Float())}
	case reflect.Slice:
		if v.IsNil() {
			return nilSlice()
		}
		et := st.Underlying().(*types.Slice).Elem()
		n := v.Len()
		arr := x.newArray(et, n)
		for k := 0; k < n; k++ {
			arr.val.(VArray).e[k] = x.fromNative(v.Index(k), et)
		}
		return VSlice{[]SliceAlt{{g: ts.True, obj: arr, len: mkConst(64, uint64(n)), cap: n}}}
	case reflect.Ptr:
		if v.IsNil() {
			return nilRef()
		}
		o := x.newObj(KCell, st.Underlying().(*types.Pointer).Elem(), VOpaque{st})
		o.native = v.Interface()
		return refTo(o)
	}
	notEncodable("fromNative: %s", rt)
	return nil
}

func (x *Exec) nativeCall(fr *Frame, fn *ssa.Function, nf interface{}, args []Value, p token.Pos) Value {
	fv := reflect.ValueOf(nf)
	ft := fv.Type()
	if ft.IsVariadic() {
		notEncodable("variadic native %s", fn)
	}
	combos := []struct {
		g    *Term
		args []reflect.Value
	}{{ts.True, nil}}
	for k := 0; k < ft.NumIn(); k++ {
		opts, ok := x.toNative(args[k], ft.In(k))
		if !ok {
			if strings.HasPrefix(fn.String(), "strconv.Format") || fn.String() == "strconv.Itoa" {
				// number formatting of a symbolic value (log / message text): opaque string
				x.warnings["opaque string from "+fn.String()]++
				return concreteStr("<num>")
			}
			notEncodable("native call %s: argument %d is not concrete enough (%s) at %s", fn, k, describe(args[k]), x.framePos(fr, p))
		}
		var nc []struct {
			g    *Term
			args []reflect.Value
		}
		for _, c := range combos {
			for _, o := range opts {
				g := mkAnd(c.g, o.g)
				if g.isFalse() {
					continue
				}
				nc = append(nc, struct {
					g    *Term
					args []reflect.Value
				}{g, append(append([]reflect.Value{}, c.args...), o.v)})
			}
		}
		combos = nc
		if len(combos) > 2048 {
			notEncodable("native call %s: too many alternatives (argument %d has %d) at %s", fn, k, len(opts), x.framePos(fr, p))
		}
	}
	res := fn.Signature.Results()
	var out Value
	first := true
	for i := len(combos) - 1; i >= 0; i-- {
		c := combos[i]
		var rv []reflect.Value
		func() {
			defer func() {
				if r := recover(); r != nil {
					// e.g. regexp.MustCompile on a bad pattern: a Go panic in the real code too
					x.panicIf(fr, c.g, fmt.Sprintf("panic in %s: %v", fn.Name(), r), p)
					rv = nil
				}
			}()
			rv = fv.Call(c.args)
		}()
		if rv == nil {
			continue
		}
		var v Value
		switch res.Len() {
		case 0:
		case 1:
			v = x.fromNative(rv[0], res.At(0).Type())
		default:
			e := make([]Value, res.Len())
			for k := range e {
				e[k] = x.fromNative(rv[k], res.At(k).Type())
			}
			v = VTuple{e}
		}
		if first {
			out = v
			first = false
		} else {
			out = mergeVal(c.g, v, out)
		}
	}
	if first {
		return x.zeroResults(fn.Signature)
	}
	return out
}
