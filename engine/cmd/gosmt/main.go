package main

import (
	"crypto/sha256"
	"encoding/json"
	"flag"
	"fmt"
	"math"
	"os"
	"os/exec"
	"path/filepath"
	"regexp"
	"runtime/pprof"
	"sort"
	"strings"
	"sync"
	"sync/atomic"
	"time"

	"golang.org/x/tools/go/packages"
	"golang.org/x/tools/go/ssa"
	"golang.org/x/tools/go/ssa/ssautil"
)

type PropConfig struct {
	ID          string            `json:"id"`
	Dirs        []string          `json:"dirs"`         // package dirs relative to /repo that receive harness files
	Subject     string            `json:"subject"`      // import path of the package under test (un-stubs it)
	Match       string            `json:"match"`        // regexp on harness function names
	Level       string            `json:"level"`
	Outside     []string          `json:"outside"`      // what is outside the claim
	Bounds      map[string]string `json:"bounds"`       // tier → text
	TimeoutS    map[string]int    `json:"timeout_s"`    // tier → per-query timeout
	Solver      string            `json:"solver"`       // default z3
	FPSolver    string            `json:"fp_solver"`    // solver for queries with FP terms
	Mutators    map[string][]string `json:"mutators"`   // invariant fields → allowed writer functions (§2.10)
	ExtraStubs  []string          `json:"extra_stubs"`
	IntMode     string            `json:"int_mode"` // regexp on harness names encoded with integers instead of bit-vectors
	Summarise   []string          `json:"summarise"` // functions replaced by an arbitrary result (fresh variable per call)
	Noop        []string          `json:"noop"`      // functions replaced by a no-op (reporting-only side effects)
}

var (
	repoDir  = "/repo"
	verifDir = "/verif"
	tier     = "quick"
	tierN    = 0
)

const modPath = "github.com/apache/yunikorn-core"

var origPath = os.Getenv("PATH")

func goEnvEngine() []string {
	os.Setenv("PATH", "/opt/veriftools/go1.26.8/bin:"+origPath)
	env := os.Environ()
	env = append(env, "GOTOOLCHAIN=local", "GOFLAGS=-mod=mod", "GOPROXY=off")
	return env
}

const replayTC = "/root/go/pkg/mod/golang.org/toolchain@v0.0.1-go1.25.0.linux-amd64/bin"

func replayGo() string {
	if _, err := os.Stat(replayTC + "/go"); err == nil {
		return replayTC + "/go"
	}
	return "go"
}

func goEnvReplay() []string {
	var env []string
	for _, e := range os.Environ() {
		if !strings.HasPrefix(e, "PATH=") {
			env = append(env, e)
		}
	}
	if _, err := os.Stat(replayTC); err == nil {
		env = append(env, "PATH="+replayTC+":"+origPath, "GOTOOLCHAIN=local")
	} else {
		env = append(env, "PATH="+origPath)
	}
	env = append(env, "GOFLAGS=-mod=mod", "GOPROXY=off", fmt.Sprintf("VERIF_TIERN=%d", tierN))
	return env
}

var harnessFuncRe = regexp.MustCompile(`(?m)^func (Verif[A-Za-z0-9_]+)\(\)`)

type genFiles struct {
	overlay map[string]string // virtual path in /repo → real path
	harness map[string][]string // dir → harness function names
}

func pkgNameOfDir(dir string) string {
	// read any non-test go file for the package clause
	ents, _ := os.ReadDir(filepath.Join(repoDir, dir))
	for _, e := range ents {
		if strings.HasSuffix(e.Name(), ".go") && !strings.HasSuffix(e.Name(), "_test.go") {
			b, _ := os.ReadFile(filepath.Join(repoDir, dir, e.Name()))
			m := regexp.MustCompile(`(?m)^package (\w+)`).FindSubmatch(b)
			if m != nil {
				return string(m[1])
			}
		}
	}
	return filepath.Base(dir)
}

func generate(cfg *PropConfig, outDir string) *genFiles {
	g := &genFiles{overlay: map[string]string{}, harness: map[string][]string{}}
	tmpl, err := os.ReadFile(filepath.Join(verifDir, "harness", "rt.go.tmpl"))
	if err != nil {
		fatal("read rt template: %v", err)
	}
	for _, dir := range cfg.Dirs {
		pkg := pkgNameOfDir(dir)
		gd := filepath.Join(outDir, "gen", dir)
		os.MkdirAll(gd, 0o755)
		rt := strings.ReplaceAll(string(tmpl), "PKGNAME", pkg)
		rtPath := filepath.Join(gd, "zz_verif_rt.go")
		os.WriteFile(rtPath, []byte(rt), 0o644)
		g.overlay[filepath.Join(repoDir, dir, "zz_verif_rt.go")] = rtPath
		hd := filepath.Join(verifDir, "harness", dir)
		ents, _ := os.ReadDir(hd)
		var names []string
		for _, e := range ents {
			if !strings.HasSuffix(e.Name(), ".go") {
				continue
			}
			src := filepath.Join(hd, e.Name())
			g.overlay[filepath.Join(repoDir, dir, e.Name())] = src
			b, _ := os.ReadFile(src)
			for _, m := range harnessFuncRe.FindAllSubmatch(b, -1) {
				names = append(names, string(m[1]))
			}
		}
		sort.Strings(names)
		g.harness[dir] = names
		var reg strings.Builder
		reg.WriteString("//go:build verif\n\npackage " + pkg + "\n\nvar vHarnesses = map[string]func(){\n")
		for _, n := range names {
			fmt.Fprintf(&reg, "\t%q: %s,\n", n, n)
		}
		reg.WriteString("}\n")
		regPath := filepath.Join(gd, "zz_verif_reg.go")
		os.WriteFile(regPath, []byte(reg.String()), 0o644)
		g.overlay[filepath.Join(repoDir, dir, "zz_verif_reg.go")] = regPath
		test := "//go:build verif\n\npackage " + pkg + "\n\nimport \"testing\"\n\nfunc TestVerifReplay(t *testing.T) { vReplayMain(t.Logf) }\n"
		tp := filepath.Join(gd, "zz_verif_replay_test.go")
		os.WriteFile(tp, []byte(test), 0o644)
		g.overlay[filepath.Join(repoDir, dir, "zz_verif_replay_test.go")] = tp
	}
	ov := map[string]map[string]string{"Replace": g.overlay}
	b, _ := json.MarshalIndent(ov, "", " ")
	os.WriteFile(filepath.Join(outDir, "overlay.json"), b, 0o644)
	return g
}

func fatal(format string, a ...interface{}) {
	fmt.Fprintf(os.Stderr, "gosmt: "+format+"\n", a...)
	os.Exit(2)
}

type HarnessResult struct {
	Name       string
	Dir        string
	Err        string
	Obls       []*Obligation
	Inputs     []*InputVar
	Funcs      map[string]int
	Stubs      map[string]int
	Spawned    map[string]int
	Uninit     []string
	ExecMS     int64
	Steps      int
	assumes    []*Term
	rangeAss   []*Term
	x          *Exec
	fn         *ssa.Function
	splitVars  []string
	splits     []*Term
	Warnings   map[string]int
}

func loadProgram(cfg *PropConfig, g *genFiles) (*ssa.Program, []*packages.Package) {
	overlay := map[string][]byte{}
	for v, r := range g.overlay {
		if strings.HasSuffix(v, "_test.go") {
			continue
		}
		b, err := os.ReadFile(r)
		if err != nil {
			fatal("overlay read %s: %v", r, err)
		}
		overlay[v] = b
	}
	var pats []string
	for _, d := range cfg.Dirs {
		pats = append(pats, "./"+d)
	}
	pc := &packages.Config{
		Mode:       packages.LoadAllSyntax,
		Dir:        repoDir,
		Env:        goEnvEngine(),
		Overlay:    overlay,
		BuildFlags: []string{"-tags=verif"},
	}
	pkgs, err := packages.Load(pc, pats...)
	if err != nil {
		fatal("packages.Load: %v", err)
	}
	nerr := 0
	packages.Visit(pkgs, nil, func(p *packages.Package) {
		for _, e := range p.Errors {
			if strings.HasPrefix(p.PkgPath, modPath) {
				fmt.Fprintf(os.Stderr, "load error: %s: %v\n", p.PkgPath, e)
				nerr++
			}
		}
	})
	if nerr > 0 {
		fmt.Println("BROKEN: harness does not compile against the current tree")
		os.Exit(2)
	}
	prog, _ := ssautil.AllPackages(pkgs, ssa.InstantiateGenerics)
	prog.Build()
	return prog, pkgs
}

func runHarness(prog *ssa.Program, pkg *ssa.Package, dir, name string, concrete map[string]uint64) (hr *HarnessResult) {
	ts = newTermStore()
	hr = &HarnessResult{Name: name, Dir: dir}
	fn := pkg.Func(name)
	if fn == nil {
		hr.Err = "harness function not found"
		return
	}
	x := newExec(prog, pkg)
	x.harness = name
	x.concrete = concrete
	x.deadline = time.Now().Add(240 * time.Second)
	hr.x = x
	hr.fn = fn
	start := time.Now()
	defer func() {
		hr.ExecMS = time.Since(start).Milliseconds()
		if r := recover(); r != nil {
			if ee, ok := r.(encodeErr); ok {
				hr.Err = "NOT-ENCODABLE " + ee.msg
				return
			}
			hr.Err = fmt.Sprintf("ENGINE-PANIC %v", r)
			if os.Getenv("GOSMT_DEBUG") != "" {
				panic(r)
			}
		}
	}()
	root := &Frame{fn: fn, env: map[ssa.Value]Value{}, cur: ts.True}
	x.callFunction(root, fn, nil, nil, ts.True, fn.Pos())
	hr.Obls = x.obls
	hr.Inputs = x.inputs
	hr.Funcs = x.funcs
	hr.Stubs = x.stubsUsed
	hr.Spawned = x.spawned
	hr.Steps = x.steps
	hr.assumes = x.assumes
	hr.rangeAss = x.rangeAss
	hr.splitVars = x.splitVars
	hr.Warnings = x.warnings
	for g := range x.uninitGlob {
		hr.Uninit = append(hr.Uninit, g)
	}
	sort.Strings(hr.Uninit)
	return
}

func hasFP(ts []*Term) bool {
	seen := map[int]bool{}
	var rec func(t *Term) bool
	rec = func(t *Term) bool {
		if seen[t.id] {
			return false
		}
		seen[t.id] = true
		if t.kind == 'f' {
			return true
		}
		for _, a := range t.a {
			if rec(a) {
				return true
			}
		}
		return false
	}
	for _, t := range ts {
		if rec(t) {
			return true
		}
	}
	return false
}

type Witness struct {
	Property string            `json:"property"`
	Harness  string            `json:"harness"`
	Dir      string            `json:"dir"`
	Label    string            `json:"label"`
	Kind     string            `json:"kind"`
	Pos      string            `json:"pos"`
	Inputs   map[string]string `json:"inputs"`
	Pretty   map[string]string `json:"pretty"`
}

func modelToWitness(cfg *PropConfig, hr *HarnessResult, o *Obligation, model map[string]string) *Witness {
	w := &Witness{Property: cfg.ID, Harness: hr.Name, Dir: hr.Dir, Label: o.Label, Kind: o.Kind, Pos: o.Pos, Inputs: map[string]string{}, Pretty: map[string]string{}}
	for _, iv := range hr.Inputs {
		lit, ok := model["in_"+iv.Name]
		var v uint64
		if !ok && iv.t != nil && iv.t.kind == 'v' && (iv.t.lo > 0 || iv.t.hi < 0) {
			// the query does not mention this input: any value of its declared range will do, 0 is not one
			v = uint64(iv.t.lo)
		}
		if ok {
			var parsed bool
			if v, parsed = modelValue(lit); !parsed {
				fmt.Printf("WARNING unparsed model value for %s: %s\n", iv.Name, lit)
			}
		}
		w.Inputs[iv.Name] = fmt.Sprintf("%d", v)
		switch iv.Kind {
		case "int64":
			w.Pretty[iv.Name] = fmt.Sprintf("%d", int64(v))
		case "int32":
			w.Pretty[iv.Name] = fmt.Sprintf("%d", int32(v))
		case "bool":
			w.Pretty[iv.Name] = fmt.Sprintf("%v", v != 0)
		case "float64":
			w.Pretty[iv.Name] = fmt.Sprintf("%g", math.Float64frombits(v))
		case "str":
			if int(v) < len(iv.Alts) {
				w.Pretty[iv.Name] = fmt.Sprintf("%q", iv.Alts[v])
			}
		default:
			w.Pretty[iv.Name] = fmt.Sprintf("%d", v)
		}
	}
	return w
}

type ReplayOutcome struct {
	Fails   []string
	Panic   string
	Outside bool
	Known   []string
	Obs     []string
	Raw     string
	Err     string
}

// replayBatch runs several witnesses of one package natively in a single `go test` invocation.
func replayBatch(outDir, dir string, ws []*Witness) []ReplayOutcome {
	jobs := filepath.Join(outDir, fmt.Sprintf("jobs_%s_%d.json", strings.ReplaceAll(dir, "/", "_"), time.Now().UnixNano()))
	b, _ := json.Marshal(ws)
	os.WriteFile(jobs, b, 0o644)
	cmd := exec.Command(replayGo(), "test", "-tags", "verif", "-vet=off", "-count=1", "-overlay", filepath.Join(outDir, "overlay.json"), "-run", "^TestVerifReplay$", "-v", "./"+dir)
	cmd.Dir = repoDir
	cmd.Env = append(goEnvReplay(), "VERIF_JOBS="+jobs)
	out, err := cmd.CombinedOutput()
	res := make([]ReplayOutcome, len(ws))
	cur := -1
	for _, l := range strings.Split(string(out), "\n") {
		l = strings.TrimSpace(l)
		switch {
		case strings.HasPrefix(l, "JOB-BEGIN "):
			fmt.Sscanf(l, "JOB-BEGIN %d", &cur)
		case strings.HasPrefix(l, "JOB-END"):
			cur = -1
		case cur >= 0 && cur < len(res):
			r := &res[cur]
			switch {
			case strings.HasPrefix(l, "REPLAY-FAIL "):
				r.Fails = append(r.Fails, strings.TrimPrefix(l, "REPLAY-FAIL "))
			case strings.HasPrefix(l, "REPLAY-PANIC "):
				r.Panic = strings.TrimPrefix(l, "REPLAY-PANIC ")
			case strings.HasPrefix(l, "REPLAY-OUTSIDE"):
				r.Outside = true
			case strings.HasPrefix(l, "REPLAY-KNOWN "):
				r.Known = append(r.Known, strings.TrimPrefix(l, "REPLAY-KNOWN "))
			case strings.HasPrefix(l, "OBS "):
				r.Obs = append(r.Obs, strings.TrimPrefix(l, "OBS "))
			}
		}
	}
	if err != nil && !strings.Contains(string(out), "JOB-BEGIN") {
		for i := range res {
			res[i].Err = "go test failed: " + tail(string(out), 1500)
		}
	}
	os.Remove(jobs)
	return res
}

func tail(s string, n int) string {
	if len(s) > n {
		return s[len(s)-n:]
	}
	return s
}

func fileHash(p string) string {
	b, err := os.ReadFile(p)
	if err != nil {
		return ""
	}
	return fmt.Sprintf("%x", sha256.Sum256(b))[:12]
}

func main() {
	prop := flag.String("prop", "", "property id")
	tierF := flag.String("tier", "", "quick|thorough")
	only := flag.String("only", "", "regexp: run only matching harnesses")
	replayPath := flag.String("replay", "", "replay a witness file")
	trace := flag.Bool("trace", false, "trace calls")
	dump := flag.Bool("dump", false, "dump failing queries")
	jobs := flag.Int("j", 14, "solver workers")
	cpuprof := flag.String("cpuprofile", "", "write a CPU profile of the engine")
	loadOnly := flag.Bool("loadonly", false, "only load and type-check the harness overlay, write no evidence")
	qTimeoutF := flag.Int("qtimeout", 0, "debugging: per-query solver limit in seconds (overrides the property configuration; the run writes no evidence)")
	flag.Parse()
	if *cpuprof != "" {
		f, err := os.Create(*cpuprof)
		if err == nil {
			pprof.StartCPUProfile(f)
			go func() {
				time.Sleep(90 * time.Second)
				pprof.StopCPUProfile()
				f.Close()
			}()
		}
	}
	traceCalls = *trace
	if *replayPath != "" {
		os.Exit(doReplay(*replayPath))
	}
	if *prop == "" {
		fatal("usage: gosmt -prop Cxx [-tier quick|thorough]")
	}
	tier = *tierF
	if tier == "" {
		tier = os.Getenv("VERIF_TIER")
	}
	if tier != "thorough" {
		tier = "quick"
	}
	if tier == "thorough" {
		tierN = 1
	}
	seed := 0
	fmt.Sscanf(os.Getenv("VERIF_SEED"), "%d", &seed)
	start := time.Now()
	var cfg PropConfig
	b, err := os.ReadFile(filepath.Join(verifDir, "props", *prop+".json"))
	if err != nil {
		fatal("%v", err)
	}
	if err := json.Unmarshal(b, &cfg); err != nil {
		fatal("props/%s.json: %v", *prop, err)
	}
	subjectPkg = cfg.Subject
	if cfg.IntMode != "" {
		intModeRe = regexp.MustCompile(cfg.IntMode)
	}
	stubPkgs = append(stubPkgs, cfg.ExtraStubs...)
	for _, name := range cfg.Noop {
		stubs[name] = noopStub
	}
	for _, name := range cfg.Summarise {
		// pure callee summarised as an arbitrary value of its result type (fresh variable per call)
		if strings.HasSuffix(name, ".CompUsageRatioSeparately") {
			stubs[name] = shareSummary
			continue
		}
		stubs[name] = summaryStub
	}
	outDir := filepath.Join(verifDir, "out", cfg.ID)
	os.MkdirAll(outDir, 0o755)
	g := generate(&cfg, outDir)
	loadStart := time.Now()
	prog, pkgs := loadProgram(&cfg, g)
	loadMS := time.Since(loadStart).Milliseconds()
	fmt.Printf("loaded %d packages, SSA built in %d ms\n", len(pkgs), loadMS)
	if *loadOnly {
		fmt.Println("load ok (harnesses compile against the current tree)")
		os.Exit(0)
	}
	matchRe := regexp.MustCompile(cfg.Match)
	var onlyRe *regexp.Regexp
	if *only != "" {
		onlyRe = regexp.MustCompile(*only)
		partialRun = true
	}
	solverName := cfg.Solver
	if solverName == "" {
		solverName = "z3"
	}
	fpSolver := cfg.FPSolver
	if fpSolver == "" {
		fpSolver = "z3-new"
	}
	pools := map[string]*Pool{}
	getPool := func(n string) *Pool {
		if p, ok := pools[n]; ok {
			return p
		}
		p := newPool(n, *jobs)
		pools[n] = p
		return p
	}
	qTimeout := 60 * time.Second
	if t, ok := cfg.TimeoutS[tier]; ok {
		qTimeout = time.Duration(t) * time.Second
	}
	if *qTimeoutF > 0 {
		qTimeout = time.Duration(*qTimeoutF) * time.Second
		partialRun = true
	}
	known := loadKnown(cfg.ID)
	knownGlobal = known

	rep := &Report{cfg: &cfg, seed: seed, known: known, queryTOs: int64(qTimeout / time.Second)}
	var all []*HarnessResult
	for _, p := range pkgs {
		rel := strings.TrimPrefix(p.PkgPath, modPath+"/")
		sp := prog.Package(p.Types)
		for _, name := range g.harness[rel] {
			if !matchRe.MatchString(name) || (onlyRe != nil && !onlyRe.MatchString(name)) {
				continue
			}
			hr := runHarnessTraced(prog, sp, rel, name, nil, *trace)
			all = append(all, hr)
			if hr.Err != "" {
				fmt.Printf("harness %s: %s\n", name, hr.Err)
				rep.broken = append(rep.broken, name+": "+hr.Err)
				continue
			}
			// discharge this harness' obligations in parallel (term store is read-only now)
			nq, nms := dischargeHarness(&cfg, hr, getPool, solverName, fpSolver, qTimeout, *jobs, *dump, outDir)
			rep.queries += nq
			rep.solverMS += nms
			na, np, nu := 0, 0, 0
			for _, o := range hr.Obls {
				switch o.Kind {
				case "assert":
					na++
				case "panic":
					np++
				case "unwind":
					nu++
				}
			}
			fmt.Printf("harness %-40s exec %5d ms  steps %7d  obligations: %d assert, %d panic, %d unwind, inputs %d\n", name, hr.ExecMS, hr.Steps, na, np, nu, len(hr.Inputs))
			rep.absorb(hr, outDir, prog, sp)
			hr.x = nil
		}
	}
	for _, p := range pools {
		rep.queries += p.Queries
		rep.solverMS += p.TotalMS
		if p.MaxMS > rep.maxQueryMS {
			rep.maxQueryMS = p.MaxMS
		}
		p.close()
	}
	if s := atomic.LoadInt64(&slowestQueryMS); s > rep.maxQueryMS {
		rep.maxQueryMS = s
	}
	rep.loadMS = loadMS
	rep.wall = time.Since(start).Seconds()
	code := rep.finish(all, g)
	os.Exit(code)
}

func runHarnessTraced(prog *ssa.Program, pkg *ssa.Package, dir, name string, concrete map[string]uint64, trace bool) *HarnessResult {
	hr := runHarness(prog, pkg, dir, name, concrete)
	return hr
}

// discharge decides every obligation of a harness.
func discharge(cfg *PropConfig, hr *HarnessResult, getPool func(string) *Pool, solver, fpSolver string, timeout time.Duration, jobs int, dump bool, outDir string) {
	type job struct {
		o    *Obligation
		mode string // viol | reach | known:<id>
		conj []*Term
		res  QueryResult
		body string
		vars []string
		intMode bool
	}
	var js []*job
	base := func(o *Obligation) []*Term {
		c := append([]*Term{}, hr.rangeAss...)
		c = append(c, hr.assumes[:o.nAssume]...)
		c = append(c, o.guard)
		return c
	}
	// implicit checks (panic / unwinding) are first tried in batches: one query for the disjunction of all
	// guards recorded under the same assumption prefix; only if that is satisfiable are they decided one by one
	batched := map[*Obligation]bool{}
	{
		groups := map[int][]*Obligation{}
		for _, o := range hr.Obls {
			if o.Kind == "panic" || o.Kind == "unwind" {
				groups[o.nAssume] = append(groups[o.nAssume], o)
			}
		}
		type bq struct {
			os   []*Obligation
			body string
			vars []string
			conj []*Term
			res  QueryResult
			im   bool
		}
		var bqs []*bq
		for n, os := range groups {
			if len(os) < 4 {
				continue
			}
			var gs []*Term
			for _, o := range os {
				gs = append(gs, o.guard)
			}
			c := append([]*Term{}, hr.rangeAss...)
			c = append(c, hr.assumes[:n]...)
			c = append(c, mkOr(gs...))
			b := &bq{os: os, conj: c}
			if intModeRe != nil && intModeRe.MatchString(hr.Name) {
				if body, v, ok := buildQueryInt(c); ok {
					b.body, b.vars, b.im = body, v, true
				}
			}
			if b.body == "" {
				b.body, b.vars = buildQuery(c)
			}
			bqs = append(bqs, b)
		}
		var wg sync.WaitGroup
		for _, b := range bqs {
			wg.Add(1)
			go func(b *bq) {
				defer wg.Done()
				sn := solver
				if hasFP(b.conj) {
					sn = fpSolver
				}
				if b.im {
					sn = "z3-new"
				}
				b.res = getPool(sn).query(b.body, nil, timeout)
			}(b)
		}
		wg.Wait()
		for _, b := range bqs {
			if b.res.Verdict == "unsat" {
				for _, o := range b.os {
					batched[o] = true
					o.Verdict = "unsat"
					o.TimeMS = b.res.MS / int64(len(b.os))
					o.SMTBytes = len(b.body) / len(b.os)
				}
			}
		}
	}
	for _, o := range hr.Obls {
		switch o.Kind {
		case "assert":
			v := append(base(o), mkNot(o.cond))
			for _, k := range o.known {
				if _, listed := knownGlobal[k.ID]; listed {
					v = append(v, mkNot(k.region))
				}
			}
			if parts := hr.splitCases(); len(parts) > 1 {
				// case split on a declared finite input: the violation query is decided per value
				for _, pc := range parts {
					js = append(js, &job{o: o, mode: "viol", conj: append(append([]*Term{}, v...), pc)})
				}
			} else {
				js = append(js, &job{o: o, mode: "viol", conj: v})
			}
			js = append(js, &job{o: o, mode: "reach", conj: base(o)})
			for _, k := range o.known {
				if _, listed := knownGlobal[k.ID]; !listed {
					continue
				}
				kv := append(base(o), mkNot(o.cond), k.region)
				js = append(js, &job{o: o, mode: "known:" + k.ID, conj: kv})
			}
		case "panic", "unwind":
			if batched[o] {
				continue
			}
			js = append(js, &job{o: o, mode: "viol", conj: base(o)})
		case "reach":
			js = append(js, &job{o: o, mode: "reach", conj: base(o)})
		}
	}
	// constant-fold shortcuts and query text (term store is shared: build sequentially)
	for _, j := range js {
		falseFound := false
		for _, t := range j.conj {
			if t.isFalse() {
				falseFound = true
			}
		}
		if falseFound {
			j.res = QueryResult{Verdict: "unsat", Raw: "folded"}
			continue
		}
		if intModeRe != nil && intModeRe.MatchString(hr.Name) {
			if b, v, ok := buildQueryInt(j.conj); ok {
				j.body, j.vars, j.intMode = b, v, true
				continue
			}
		}
		j.body, j.vars = buildQuery(j.conj)
	}
	var wg sync.WaitGroup
	sem := make(chan struct{}, jobs)
	for _, j := range js {
		if j.res.Verdict != "" {
			continue
		}
		wg.Add(1)
		sem <- struct{}{}
		go func(j *job) {
			defer wg.Done()
			defer func() { <-sem }()
			sn := solver
			if hasFP(j.conj) {
				sn = fpSolver
			}
			if j.intMode {
				sn = "z3-new" // z3 4.8.12 is two orders of magnitude slower on the mod-2^64 integer encoding
			}
			j.res = getPool(sn).query(j.body, j.vars, timeout)
			if j.intMode && j.res.Verdict != "sat" && j.res.Verdict != "unsat" {
				// second chance with the bit-vector encoding
				b, v := buildQueryLocked(j.conj)
				r2 := getPool(sn).query(b, v, timeout)
				if r2.Verdict == "sat" || r2.Verdict == "unsat" {
					j.body, j.vars, j.res = b, v, r2
				}
			}
			if j.res.Verdict == "error" && sn == "z3" {
				// retry once on the newer z3
				j.res = getPool("z3-new").query(j.body, j.vars, timeout)
			}
		}(j)
	}
	wg.Wait()
	for _, j := range js {
		o := j.o
		o.SMTBytes += len(j.body)
		o.TimeMS += j.res.MS
		switch {
		case j.mode == "viol":
			// aggregate over case-split parts: sat wins, then unknown/error, then unsat
			switch {
			case o.Verdict == "sat":
			case j.res.Verdict == "sat":
				o.Verdict = "sat"
			case o.Verdict == "" || o.Verdict == "unsat":
				o.Verdict = j.res.Verdict
			}
			if j.res.Verdict == "sat" && o.modelLits == nil {
				o.Model = map[string]uint64{}
				o.modelLits = j.res.Model
			}
			if (j.res.Verdict == "error" || j.res.Verdict == "unknown") && dump {
				os.WriteFile(filepath.Join(outDir, fmt.Sprintf("q_%s_%s.smt2", hr.Name, sanitize(o.Label))), []byte(j.body+"(check-sat)\n"), 0o644)
				fmt.Printf("  %s on %s/%s: %s\n", j.res.Verdict, hr.Name, o.Label, tail(j.res.Raw, 300))
			}
		case j.mode == "reach":
			o.Reach = j.res.Verdict
			if j.res.Verdict == "sat" {
				o.reachLits = j.res.Model
			}
			if o.Kind == "reach" {
				o.Verdict = j.res.Verdict
			}
		case strings.HasPrefix(j.mode, "known:"):
			if o.knownRes == nil {
				o.knownRes = map[string]QueryResult{}
			}
			o.knownRes[strings.TrimPrefix(j.mode, "known:")] = j.res
		}
	}
}

// splitCases: one constraint per combination of values of the inputs declared with vSplit (bounded product)
func (hr *HarnessResult) splitCases() []*Term {
	if hr.splits != nil {
		return hr.splits
	}
	cases := []*Term{ts.True}
	for _, name := range hr.splitVars {
		var iv *InputVar
		for _, c := range hr.Inputs {
			if c.Name == name {
				iv = c
			}
		}
		if iv == nil || iv.t.isConst() {
			continue
		}
		var vals []*Term
		switch {
		case iv.Kind == "bool":
			vals = []*Term{iv.t, mkNot(iv.t)}
		case iv.N > 0:
			for k := 0; k < iv.N; k++ {
				vals = append(vals, mkEq(iv.t, mkConst(iv.t.w, uint64(k))))
			}
		default:
			continue
		}
		var nc []*Term
		for _, c := range cases {
			for _, v := range vals {
				nc = append(nc, mkAnd(c, v))
			}
		}
		cases = nc
		if len(cases) > 64 {
			break
		}
	}
	hr.splits = cases
	return cases
}

var intModeRe *regexp.Regexp

// buildQuery only reads the term store, so it may be called from worker goroutines
func buildQueryLocked(conj []*Term) (string, []string) { return buildQuery(conj) }

func sanitize(s string) string {
	return regexp.MustCompile(`[^A-Za-z0-9_.-]+`).ReplaceAllString(s, "_")
}

func doReplay(path string) int {
	b, err := os.ReadFile(path)
	if err != nil {
		fatal("%v", err)
	}
	var w Witness
	if err := json.Unmarshal(b, &w); err != nil {
		fatal("%v", err)
	}
	var cfg PropConfig
	cb, err := os.ReadFile(filepath.Join(verifDir, "props", w.Property+".json"))
	if err != nil {
		fatal("%v", err)
	}
	json.Unmarshal(cb, &cfg)
	outDir := filepath.Join(verifDir, "out", cfg.ID)
	os.MkdirAll(outDir, 0o755)
	generate(&cfg, outDir)
	res := replayBatch(outDir, w.Dir, []*Witness{&w})
	r := res[0]
	fmt.Printf("replay of %s (%s / %s)\n inputs: %v\n", path, w.Harness, w.Label, w.Pretty)
	if r.Err != "" {
		fmt.Println(r.Err)
		return 2
	}
	for _, o := range r.Obs {
		fmt.Println("REPLAY-OBSERVED", o)
	}
	for _, f := range r.Fails {
		fmt.Println("REPLAY-FAIL", f)
	}
	if r.Panic != "" {
		fmt.Println("REPLAY-PANIC", r.Panic)
	}
	if len(r.Fails) > 0 || r.Panic != "" {
		fmt.Printf("VIOLATION property=%s replay=%s\n", w.Property, path)
		return 1
	}
	fmt.Println("witness does not reproduce on the current tree")
	return 0
}
