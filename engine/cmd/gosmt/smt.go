package main

import (
	"bufio"
	"fmt"
	"io"
	"math"
	"math/big"
	"os/exec"
	"regexp"
	"strconv"
	"strings"
	"sync"
	"sync/atomic"
	"time"
)

type Solver struct {
	name string
	cmd  *exec.Cmd
	in   io.WriteCloser
	out  *bufio.Reader
	args []string
	wq   chan string
}

func solverArgs(name string) []string {
	switch name {
	case "z3":
		return []string{"z3", "-in"}
	case "z3-new":
		return []string{"z3-new", "-in"}
	case "cvc5":
		return []string{"cvc5", "--incremental", "--produce-models", "--fp-exp", "--lang", "smt2"}
	}
	return []string{name}
}

func startSolver(name string) (*Solver, error) {
	a := solverArgs(name)
	cmd := exec.Command(a[0], a[1:]...)
	in, err := cmd.StdinPipe()
	if err != nil {
		return nil, err
	}
	out, err := cmd.StdoutPipe()
	if err != nil {
		return nil, err
	}
	cmd.Stderr = cmd.Stdout
	if err := cmd.Start(); err != nil {
		return nil, err
	}
	s := &Solver{name: name, cmd: cmd, in: in, out: bufio.NewReaderSize(out, 1<<20), args: a, wq: make(chan string, 256)}
	// a single writer goroutine keeps the order of everything sent to the solver and never blocks the caller
	go func() {
		for str := range s.wq {
			if _, err := io.WriteString(in, str); err != nil {
				for range s.wq {
				}
				return
			}
		}
	}()
	if name == "cvc5" {
		s.send("(set-logic ALL)\n")
	}
	s.send("(set-option :produce-models true)\n")
	return s, nil
}

func (s *Solver) send(str string) {
	defer func() { recover() }() // send on a closed queue after kill
	s.wq <- str
}

func (s *Solver) kill() {
	func() {
		defer func() { recover() }()
		close(s.wq)
	}()
	if s.cmd != nil && s.cmd.Process != nil {
		s.cmd.Process.Kill()
		s.cmd.Wait()
	}
}

type QueryResult struct {
	Verdict string // sat | unsat | unknown | error
	Model   map[string]string
	Raw     string
	MS      int64
}

// run sends one query (already containing declarations and assertions) inside push/pop.
func (s *Solver) run(body string, vars []string, timeout time.Duration) QueryResult {
	start := time.Now()
	var sb strings.Builder
	sb.WriteString("(push 1)\n")
	if s.name != "cvc5" {
		fmt.Fprintf(&sb, "(set-option :timeout %d)\n", timeout.Milliseconds())
	}
	sb.WriteString(body)
	sb.WriteString("(check-sat)\n(echo \"<<cs>>\")\n")
	type lineRes struct {
		lines []string
		err   error
	}
	readUntil := func(marker string) chan lineRes {
		ch := make(chan lineRes, 1)
		go func() {
			var lines []string
			for {
				l, err := s.out.ReadString('\n')
				if err != nil {
					ch <- lineRes{lines, err}
					return
				}
				l = strings.TrimSpace(l)
				if l == marker || l == "\""+marker+"\"" {
					ch <- lineRes{lines, nil}
					return
				}
				if l != "" {
					lines = append(lines, l)
				}
			}
		}()
		return ch
	}
	csCh := readUntil("<<cs>>")
	s.send(sb.String())
	var r lineRes
	select {
	case r = <-csCh:
	case <-time.After(timeout + 10*time.Second):
		s.kill()
		return QueryResult{Verdict: "unknown", Raw: "watchdog timeout", MS: time.Since(start).Milliseconds()}
	}
	if r.err != nil {
		return QueryResult{Verdict: "error", Raw: strings.Join(r.lines, "\n") + r.err.Error(), MS: time.Since(start).Milliseconds()}
	}
	res := QueryResult{Raw: strings.Join(r.lines, "\n")}
	verdict := ""
	for _, l := range r.lines {
		if strings.Contains(l, "(error") {
			verdict = "error"
			break
		}
		if l == "sat" || l == "unsat" || l == "unknown" || l == "timeout" {
			verdict = l
		}
	}
	if verdict == "" || verdict == "timeout" {
		if verdict == "" {
			verdict = "error"
		} else {
			verdict = "unknown"
		}
	}
	res.Verdict = verdict
	if verdict == "sat" && len(vars) > 0 {
		var gv strings.Builder
		gv.WriteString("(get-value (")
		for _, v := range vars {
			gv.WriteString("|" + v + "| ")
		}
		gv.WriteString("))\n(echo \"<<gv>>\")\n")
		s.send(gv.String())
		select {
		case r = <-readUntil("<<gv>>"):
			res.Model = parseModel(strings.Join(r.lines, " "))
		case <-time.After(20 * time.Second):
			s.kill()
			res.Verdict = "unknown"
		}
	}
	s.send("(pop 1)\n")
	res.MS = time.Since(start).Milliseconds()
	return res
}

var modelRe = regexp.MustCompile(`\(\|?([A-Za-z0-9_.$:\-\[\]<>/#@*+ ]+?)\|?\s+(#x[0-9a-fA-F]+|#b[01]+|true|false|\(fp #b[01] #[bx][0-9a-fA-F]+ #[bx][0-9a-fA-F]+\)|\(_ [+-]?[A-Za-z]+ \d+ \d+\)|\(_ bv\d+ \d+\)|\(- \d+\)|\d+)\)`)

func parseModel(s string) map[string]string {
	m := map[string]string{}
	for _, mm := range modelRe.FindAllStringSubmatch(s, -1) {
		m[strings.TrimSpace(mm[1])] = mm[2]
	}
	return m
}

// modelValue converts an SMT value literal to raw bits.
func modelValue(lit string) (uint64, bool) {
	switch {
	case lit == "true":
		return 1, true
	case lit == "false":
		return 0, true
	case strings.HasPrefix(lit, "(- "):
		b, ok := new(big.Int).SetString(strings.TrimSuffix(strings.TrimPrefix(lit, "(- "), ")"), 10)
		if !ok {
			return 0, false
		}
		return 0 - b.Uint64(), true
	case lit != "" && lit[0] >= '0' && lit[0] <= '9':
		b, ok := new(big.Int).SetString(lit, 10)
		if !ok {
			return 0, false
		}
		return b.Uint64(), true
	case strings.HasPrefix(lit, "#x"):
		v, err := strconv.ParseUint(lit[2:], 16, 64)
		return v, err == nil
	case strings.HasPrefix(lit, "#b"):
		v, err := strconv.ParseUint(lit[2:], 2, 64)
		return v, err == nil
	case strings.HasPrefix(lit, "(_ bv"):
		f := strings.Fields(lit[5:])
		v, err := strconv.ParseUint(f[0], 10, 64)
		return v, err == nil
	case strings.HasPrefix(lit, "(fp "):
		f := strings.Fields(strings.Trim(lit, "()"))
		if len(f) != 4 {
			return 0, false
		}
		// each part is printed in binary or, when its width is a multiple of four (the 52-bit significand), in hex
		part := func(s string) (uint64, bool) {
			base := 2
			if strings.HasPrefix(s, "#x") {
				base = 16
			}
			v, err := strconv.ParseUint(s[2:], base, 64)
			return v, err == nil
		}
		sg, ok1 := part(f[1])
		ex, ok2 := part(f[2])
		mn, ok3 := part(f[3])
		if !ok1 || !ok2 || !ok3 {
			return 0, false
		}
		return sg<<63 | ex<<52 | mn, true
	case strings.HasPrefix(lit, "(_ "):
		f := strings.Fields(strings.Trim(lit, "()"))
		switch f[1] {
		case "NaN":
			return math.Float64bits(math.NaN()), true
		case "+oo":
			return math.Float64bits(math.Inf(1)), true
		case "-oo":
			return math.Float64bits(math.Inf(-1)), true
		case "+zero":
			return 0, true
		case "-zero":
			return 1 << 63, true
		}
	}
	return 0, false
}

// ---- pool ----

type Pool struct {
	name    string
	mu      sync.Mutex
	idle    []*Solver
	n       int
	Queries int
	TotalMS int64
	MaxMS   int64
	base    string
}

func newPool(name string, n int) *Pool { return &Pool{name: name, n: n} }

// slowestQueryMS: the slowest single solver query of the run over all pools (reported next to the per-query limit)
var slowestQueryMS int64

func (p *Pool) get() *Solver {
	p.mu.Lock()
	if len(p.idle) > 0 {
		s := p.idle[len(p.idle)-1]
		p.idle = p.idle[:len(p.idle)-1]
		p.mu.Unlock()
		return s
	}
	p.mu.Unlock()
	s, err := startSolver(p.name)
	if err != nil {
		panic(err)
	}
	if p.base != "" {
		// shared definitions of the harness; written from a goroutine so that a solver that echoes
		// errors cannot dead-lock against the pipe
		s.send(p.base)
	}
	return s
}

func (p *Pool) put(s *Solver, ok bool) {
	if !ok {
		s.kill()
		return
	}
	p.mu.Lock()
	p.idle = append(p.idle, s)
	p.mu.Unlock()
}

func (p *Pool) query(body string, vars []string, timeout time.Duration) QueryResult {
	s := p.get()
	r := s.run(body, vars, timeout)
	ok := r.Verdict == "sat" || r.Verdict == "unsat"
	if r.Verdict == "unknown" && !strings.Contains(r.Raw, "watchdog") {
		ok = true
	}
	p.put(s, ok)
	p.mu.Lock()
	p.Queries++
	p.TotalMS += r.MS
	if r.MS > p.MaxMS {
		p.MaxMS = r.MS
	}
	p.mu.Unlock()
	for {
		cur := atomic.LoadInt64(&slowestQueryMS)
		if r.MS <= cur || atomic.CompareAndSwapInt64(&slowestQueryMS, cur, r.MS) {
			break
		}
	}
	return r
}

func (p *Pool) close() {
	p.mu.Lock()
	defer p.mu.Unlock()
	for _, s := range p.idle {
		s.send("(exit)\n")
		s.kill()
	}
	p.idle = nil
}

// buildQuery renders the conjunction of terms as an SMT-LIB2 body and returns the variables it mentions.
func buildQuery(conj []*Term) (string, []string) {
	p := newPrinter()
	for _, t := range conj {
		p.emit(t)
	}
	var hdr strings.Builder
	for name, u := range p.ufs {
		hdr.WriteString("(declare-fun |" + name + "| (")
		for _, a := range u.a {
			hdr.WriteString(sortStr(a) + " ")
		}
		hdr.WriteString(") " + sortStr(u) + ")\n")
	}
	// UF declarations must precede use: the printer emits define-funs in order, so prepend
	body := hdr.String() + p.sb.String()
	var sb strings.Builder
	sb.WriteString(body)
	for _, t := range conj {
		sb.WriteString("(assert " + p.ref(t) + ")\n")
	}
	var vars []string
	for n := range p.vars {
		vars = append(vars, n)
	}
	return sb.String(), vars
}
