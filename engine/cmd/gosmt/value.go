package main

import (
	"fmt"
	"go/types"
	"sort"
	"strings"

	"golang.org/x/tools/go/ssa"
)

type Value interface{}

type VInt struct{ t *Term }
type VBool struct{ t *Term }
type VFloat struct{ t *Term }

type StrAlt struct {
	g *Term
	s string
}
type VStr struct{ alts []StrAlt }

type RefAlt struct {
	g    *Term
	obj  *Obj // nil ⇒ nil pointer
	path []int
}

// VRef: pointer / map / chan reference (guarded union)
type VRef struct{ alts []RefAlt }

type SliceAlt struct {
	g    *Term
	obj  *Obj // nil ⇒ nil slice
	path []int
	off  int
	len  *Term // 64-bit
	cap  int   // capacity counted from off
}
type VSlice struct{ alts []SliceAlt }

type IfaceAlt struct {
	g   *Term
	typ types.Type // nil ⇒ nil interface
	val Value
}
type VIface struct{ alts []IfaceAlt }

type FuncAlt struct {
	g     *Term
	fn    *ssa.Function // nil ⇒ nil func
	binds []Value
	bound Value // receiver for bound-method closures handled via fn (ssa makes wrappers)
	native func(x *Exec, fr *Frame, args []Value) Value // engine-implemented function value (e.g. the sort swapper)
}
type VFunc struct{ alts []FuncAlt }

type VStruct struct{ f []Value }
type VArray struct{ e []Value }
type VTuple struct{ e []Value }

// VOpaque: result of a stub; carries nothing
type VOpaque struct{ typ types.Type }

// map iterator
type VIter struct {
	m     VRef
	pos   int
	alt   int
	seen  map[string]bool
	isStr bool
	str   string
}

type ObjKind uint8

const (
	KCell ObjKind = iota // struct / array / scalar content in val
	KMap
	KChan
)

type MapEnt struct {
	key     Value
	present *Term
	val     Value
}

type Obj struct {
	id   int
	kind ObjKind
	typ  types.Type // content type
	val  Value
	// map
	keys []string
	ents map[string]*MapEnt
	name string
	// ghost: extra info
	timerFn Value
	native  interface{}
}

func (o *Obj) String() string {
	if o == nil {
		return "nil"
	}
	return fmt.Sprintf("obj%d<%s>", o.id, o.typ)
}

func concreteStr(s string) VStr { return VStr{[]StrAlt{{ts.True, s}}} }
func nilRef() VRef              { return VRef{[]RefAlt{{ts.True, nil, nil}}} }
func refTo(o *Obj, path ...int) VRef {
	return VRef{[]RefAlt{{ts.True, o, path}}}
}
func nilSlice() VSlice { return VSlice{[]SliceAlt{{g: ts.True, len: mkConst(64, 0)}}} }
func nilIface() VIface { return VIface{[]IfaceAlt{{ts.True, nil, nil}}} }
func nilFunc() VFunc   { return VFunc{[]FuncAlt{{g: ts.True}}} }

func intWidth(t types.Type) (int, bool) {
	b, ok := t.Underlying().(*types.Basic)
	if !ok {
		return 0, false
	}
	switch b.Kind() {
	case types.Int8:
		return 8, true
	case types.Uint8:
		return 8, false
	case types.Int16:
		return 16, true
	case types.Uint16:
		return 16, false
	case types.Int32:
		return 32, true
	case types.Uint32:
		return 32, false
	case types.Int, types.Int64, types.UntypedInt, types.UntypedRune:
		return 64, true
	case types.Uint, types.Uint64, types.Uintptr:
		return 64, false
	}
	return 0, false
}

func isFloat(t types.Type) bool {
	b, ok := t.Underlying().(*types.Basic)
	return ok && (b.Kind() == types.Float64 || b.Kind() == types.Float32 || b.Kind() == types.UntypedFloat)
}

func zeroValue(t types.Type) Value {
	switch u := t.Underlying().(type) {
	case *types.Basic:
		if u.Info()&types.IsBoolean != 0 {
			return VBool{ts.False}
		}
		if u.Info()&types.IsString != 0 {
			return concreteStr("")
		}
		if u.Info()&types.IsFloat != 0 {
			return VFloat{mkFConst(0)}
		}
		if u.Kind() == types.UnsafePointer {
			return nilRef()
		}
		if u.Kind() == types.UntypedNil {
			return nilRef()
		}
		w, _ := intWidth(t)
		if w == 0 {
			panic(fmt.Sprintf("zeroValue: basic %s", t))
		}
		return VInt{mkConst(w, 0)}
	case *types.Pointer, *types.Map, *types.Chan:
		return nilRef()
	case *types.Slice:
		return nilSlice()
	case *types.Interface:
		return nilIface()
	case *types.Signature:
		return nilFunc()
	case *types.Struct:
		f := make([]Value, u.NumFields())
		for i := range f {
			f[i] = zeroValue(u.Field(i).Type())
		}
		return VStruct{f}
	case *types.Array:
		e := make([]Value, u.Len())
		for i := range e {
			e[i] = zeroValue(u.Elem())
		}
		return VArray{e}
	case *types.Tuple:
		e := make([]Value, u.Len())
		for i := range e {
			e[i] = zeroValue(u.At(i).Type())
		}
		return VTuple{e}
	}
	panic(fmt.Sprintf("zeroValue: %T %s", t.Underlying(), t))
}

func pathEq(a, b []int) bool {
	if len(a) != len(b) {
		return false
	}
	for i := range a {
		if a[i] != b[i] {
			return false
		}
	}
	return true
}

func normRef(alts []RefAlt) VRef {
	var out []RefAlt
	for _, a := range alts {
		if a.g.isFalse() {
			continue
		}
		found := false
		for i := range out {
			if out[i].obj == a.obj && pathEq(out[i].path, a.path) {
				out[i].g = mkOr(out[i].g, a.g)
				found = true
				break
			}
		}
		if !found {
			out = append(out, a)
		}
	}
	if len(out) == 0 {
		return VRef{[]RefAlt{{ts.False, nil, nil}}}
	}
	return VRef{out}
}

func normStr(alts []StrAlt) VStr {
	var out []StrAlt
	for _, a := range alts {
		if a.g.isFalse() {
			continue
		}
		found := false
		for i := range out {
			if out[i].s == a.s {
				out[i].g = mkOr(out[i].g, a.g)
				found = true
				break
			}
		}
		if !found {
			out = append(out, a)
		}
	}
	if len(out) == 0 {
		return VStr{[]StrAlt{{ts.False, ""}}}
	}
	return VStr{out}
}

func normSlice(alts []SliceAlt) VSlice {
	var out []SliceAlt
	for _, a := range alts {
		if a.g.isFalse() {
			continue
		}
		found := false
		for i := range out {
			o := &out[i]
			if o.obj == a.obj && pathEq(o.path, a.path) && o.off == a.off && o.cap == a.cap {
				o.len = mkIte(a.g, a.len, o.len)
				o.g = mkOr(o.g, a.g)
				found = true
				break
			}
		}
		if !found {
			out = append(out, a)
		}
	}
	if len(out) == 0 {
		return VSlice{[]SliceAlt{{g: ts.False, len: mkConst(64, 0)}}}
	}
	return VSlice{out}
}

func sameBinds(a, b []Value) bool {
	if len(a) != len(b) {
		return false
	}
	for i := range a {
		if !valueIdentical(a[i], b[i]) {
			return false
		}
	}
	return true
}

// valueIdentical: cheap syntactic identity (used for de-duplication only)
func valueIdentical(a, b Value) bool {
	switch x := a.(type) {
	case VInt:
		y, ok := b.(VInt)
		return ok && x.t == y.t
	case VBool:
		y, ok := b.(VBool)
		return ok && x.t == y.t
	case VFloat:
		y, ok := b.(VFloat)
		return ok && x.t == y.t
	case VRef:
		y, ok := b.(VRef)
		if !ok || len(x.alts) != len(y.alts) {
			return false
		}
		for i := range x.alts {
			if x.alts[i].g != y.alts[i].g || x.alts[i].obj != y.alts[i].obj || !pathEq(x.alts[i].path, y.alts[i].path) {
				return false
			}
		}
		return true
	case VStr:
		y, ok := b.(VStr)
		if !ok || len(x.alts) != len(y.alts) {
			return false
		}
		for i := range x.alts {
			if x.alts[i].g != y.alts[i].g || x.alts[i].s != y.alts[i].s {
				return false
			}
		}
		return true
	case nil:
		return b == nil
	}
	return false
}

// mergeVal returns ite(g, a, b) over values.
func mergeVal(g *Term, a, b Value) Value {
	if g.isTrue() {
		return a
	}
	if g.isFalse() {
		return b
	}
	if a == nil {
		return b
	}
	if b == nil {
		return a
	}
	switch x := a.(type) {
	case VInt:
		return VInt{mkIte(g, x.t, b.(VInt).t)}
	case VBool:
		return VBool{mkIte(g, x.t, b.(VBool).t)}
	case VFloat:
		return VFloat{mkIte(g, x.t, b.(VFloat).t)}
	case VStr:
		y := b.(VStr)
		ng := mkNot(g)
		var alts []StrAlt
		for _, al := range x.alts {
			alts = append(alts, StrAlt{mkAnd(g, al.g), al.s})
		}
		for _, al := range y.alts {
			alts = append(alts, StrAlt{mkAnd(ng, al.g), al.s})
		}
		return normStr(alts)
	case VRef:
		y := b.(VRef)
		ng := mkNot(g)
		var alts []RefAlt
		for _, al := range x.alts {
			alts = append(alts, RefAlt{mkAnd(g, al.g), al.obj, al.path})
		}
		for _, al := range y.alts {
			alts = append(alts, RefAlt{mkAnd(ng, al.g), al.obj, al.path})
		}
		return normRef(alts)
	case VSlice:
		y := b.(VSlice)
		ng := mkNot(g)
		var alts []SliceAlt
		for _, al := range x.alts {
			al.g = mkAnd(g, al.g)
			alts = append(alts, al)
		}
		for _, al := range y.alts {
			al.g = mkAnd(ng, al.g)
			alts = append(alts, al)
		}
		return normSlice(alts)
	case VIface:
		y := b.(VIface)
		ng := mkNot(g)
		var alts []IfaceAlt
		for _, al := range x.alts {
			alts = append(alts, IfaceAlt{mkAnd(g, al.g), al.typ, al.val})
		}
		for _, al := range y.alts {
			alts = append(alts, IfaceAlt{mkAnd(ng, al.g), al.typ, al.val})
		}
		return normIface(alts)
	case VFunc:
		y := b.(VFunc)
		ng := mkNot(g)
		var alts []FuncAlt
		for _, al := range x.alts {
			al.g = mkAnd(g, al.g)
			alts = append(alts, al)
		}
		for _, al := range y.alts {
			al.g = mkAnd(ng, al.g)
			alts = append(alts, al)
		}
		return normFunc(alts)
	case VStruct:
		y := b.(VStruct)
		f := make([]Value, len(x.f))
		for i := range f {
			f[i] = mergeVal(g, x.f[i], y.f[i])
		}
		return VStruct{f}
	case VArray:
		y := b.(VArray)
		e := make([]Value, len(x.e))
		for i := range e {
			e[i] = mergeVal(g, x.e[i], y.e[i])
		}
		return VArray{e}
	case VTuple:
		y := b.(VTuple)
		e := make([]Value, len(x.e))
		for i := range e {
			e[i] = mergeVal(g, x.e[i], y.e[i])
		}
		return VTuple{e}
	case VOpaque:
		return a
	case VNative:
		return a
	case *VIter:
		return a
	}
	panic(fmt.Sprintf("mergeVal: %T", a))
}

func normIface(alts []IfaceAlt) VIface {
	var out []IfaceAlt
	for _, a := range alts {
		if a.g.isFalse() {
			continue
		}
		found := false
		for i := range out {
			o := &out[i]
			if (o.typ == nil && a.typ == nil) || (o.typ != nil && a.typ != nil && types.Identical(o.typ, a.typ)) {
				if o.typ != nil {
					o.val = mergeVal(a.g, a.val, o.val)
				}
				o.g = mkOr(o.g, a.g)
				found = true
				break
			}
		}
		if !found {
			out = append(out, a)
		}
	}
	if len(out) == 0 {
		return VIface{[]IfaceAlt{{ts.False, nil, nil}}}
	}
	return VIface{out}
}

func normFunc(alts []FuncAlt) VFunc {
	var out []FuncAlt
	for _, a := range alts {
		if a.g.isFalse() {
			continue
		}
		found := false
		for i := range out {
			o := &out[i]
			if o.native == nil && a.native == nil && o.fn == a.fn && sameBinds(o.binds, a.binds) {
				o.g = mkOr(o.g, a.g)
				found = true
				break
			}
		}
		if !found {
			out = append(out, a)
		}
	}
	if len(out) == 0 {
		return VFunc{[]FuncAlt{{g: ts.False}}}
	}
	return VFunc{out}
}

// ---- content navigation ----

func getPath(v Value, path []int) Value {
	for _, i := range path {
		switch x := v.(type) {
		case VStruct:
			v = x.f[i]
		case VArray:
			v = x.e[i]
		default:
			panic(fmt.Sprintf("getPath into %T", v))
		}
	}
	return v
}

func setPath(v Value, path []int, g *Term, nv Value) Value {
	if len(path) == 0 {
		return mergeVal(g, nv, v)
	}
	i := path[0]
	switch x := v.(type) {
	case VStruct:
		f := make([]Value, len(x.f))
		copy(f, x.f)
		f[i] = setPath(x.f[i], path[1:], g, nv)
		return VStruct{f}
	case VArray:
		e := make([]Value, len(x.e))
		copy(e, x.e)
		e[i] = setPath(x.e[i], path[1:], g, nv)
		return VArray{e}
	}
	panic(fmt.Sprintf("setPath into %T", v))
}

// ---- map key serialisation ----

func keyString(v Value) (string, bool) {
	switch x := v.(type) {
	case VStr:
		if len(x.alts) == 1 && x.alts[0].g.isTrue() {
			return "s:" + x.alts[0].s, true
		}
		return "", false
	case VInt:
		if x.t.isConst() {
			return fmt.Sprintf("i:%d", x.t.sval()), true
		}
		return "", false
	case VBool:
		if x.t.isConst() {
			return fmt.Sprintf("b:%d", x.t.c), true
		}
		return "", false
	case VRef:
		if len(x.alts) == 1 && x.alts[0].g.isTrue() {
			a := x.alts[0]
			if a.obj == nil {
				return "p:nil", true
			}
			return fmt.Sprintf("p:%d:%v", a.obj.id, a.path), true
		}
		return "", false
	case VStruct:
		var sb strings.Builder
		sb.WriteString("{")
		for _, f := range x.f {
			s, ok := keyString(f)
			if !ok {
				return "", false
			}
			sb.WriteString(s + ";")
		}
		sb.WriteString("}")
		return sb.String(), true
	case VArray:
		var sb strings.Builder
		sb.WriteString("[")
		for _, f := range x.e {
			s, ok := keyString(f)
			if !ok {
				return "", false
			}
			sb.WriteString(s + ";")
		}
		sb.WriteString("]")
		return sb.String(), true
	case VIface:
		if len(x.alts) == 1 && x.alts[0].g.isTrue() {
			a := x.alts[0]
			if a.typ == nil {
				return "n:", true
			}
			s, ok := keyString(a.val)
			return "t:" + a.typ.String() + "|" + s, ok
		}
		return "", false
	}
	return "", false
}

// keyAlts expands a key value into concrete alternatives (guard, concrete value).
type keyAlt struct {
	g *Term
	v Value
	s string
}

func expandKey(v Value) ([]keyAlt, bool) {
	if s, ok := keyString(v); ok {
		return []keyAlt{{ts.True, v, s}}, true
	}
	switch x := v.(type) {
	case VStr:
		var out []keyAlt
		for _, a := range x.alts {
			out = append(out, keyAlt{a.g, concreteStr(a.s), "s:" + a.s})
		}
		return out, true
	case VRef:
		var out []keyAlt
		for _, a := range x.alts {
			cv := VRef{[]RefAlt{{ts.True, a.obj, a.path}}}
			s, _ := keyString(cv)
			out = append(out, keyAlt{a.g, cv, s})
		}
		return out, true
	case VInt:
		// symbolic int with a small range
		if x.t.hi-x.t.lo >= 0 && x.t.hi-x.t.lo < 16 {
			var out []keyAlt
			for i := x.t.lo; i <= x.t.hi; i++ {
				c := mkConstS(x.t.w, i)
				out = append(out, keyAlt{mkEq(x.t, c), VInt{c}, fmt.Sprintf("i:%d", i)})
			}
			return out, true
		}
		// ite tree of constants
		if consts, ok := iteLeaves(x.t); ok {
			var out []keyAlt
			for _, c := range consts {
				out = append(out, keyAlt{mkEq(x.t, c), VInt{c}, fmt.Sprintf("i:%d", c.sval())})
			}
			return out, true
		}
	case VStruct:
		// product over fields
		outs := []keyAlt{{ts.True, VStruct{nil}, ""}}
		for _, f := range x.f {
			fa, ok := expandKey(f)
			if !ok {
				return nil, false
			}
			var n []keyAlt
			for _, o := range outs {
				for _, a := range fa {
					g := mkAnd(o.g, a.g)
					if g.isFalse() {
						continue
					}
					nf := append(append([]Value{}, o.v.(VStruct).f...), a.v)
					n = append(n, keyAlt{g, VStruct{nf}, ""})
				}
			}
			outs = n
			if len(outs) > 64 {
				return nil, false
			}
		}
		for i := range outs {
			outs[i].s, _ = keyString(outs[i].v)
		}
		return outs, true
	case VIface:
		var out []keyAlt
		for _, a := range x.alts {
			cv := VIface{[]IfaceAlt{{ts.True, a.typ, a.val}}}
			if a.typ == nil {
				out = append(out, keyAlt{a.g, cv, "n:"})
				continue
			}
			sub, ok := expandKey(a.val)
			if !ok {
				return nil, false
			}
			for _, s := range sub {
				out = append(out, keyAlt{mkAnd(a.g, s.g), VIface{[]IfaceAlt{{ts.True, a.typ, s.v}}}, "t:" + a.typ.String() + "|" + s.s})
			}
		}
		return out, true
	}
	return nil, false
}

func iteLeaves(t *Term) ([]*Term, bool) {
	seen := map[int]bool{}
	var out []*Term
	var rec func(t *Term, d int) bool
	rec = func(t *Term, d int) bool {
		if d > 6 || len(out) > 16 {
			return false
		}
		if t.isConst() {
			if !seen[t.id] {
				seen[t.id] = true
				out = append(out, t)
			}
			return true
		}
		if t.op == OIte {
			return rec(t.a[1], d+1) && rec(t.a[2], d+1)
		}
		return false
	}
	if !rec(t, 0) || len(out) > 16 {
		return nil, false
	}
	sort.Slice(out, func(i, j int) bool { return out[i].sval() < out[j].sval() })
	return out, true
}

func describe(v Value) string {
	switch x := v.(type) {
	case VInt:
		if x.t.isConst() {
			return fmt.Sprintf("%d", x.t.sval())
		}
		return fmt.Sprintf("int<t%d>", x.t.id)
	case VBool:
		if x.t.isConst() {
			return fmt.Sprintf("%v", x.t.isTrue())
		}
		return fmt.Sprintf("bool<t%d>", x.t.id)
	case VStr:
		var ss []string
		for _, a := range x.alts {
			ss = append(ss, fmt.Sprintf("%q", a.s))
		}
		return "str{" + strings.Join(ss, "|") + "}"
	case VRef:
		var ss []string
		for _, a := range x.alts {
			ss = append(ss, fmt.Sprintf("%v%v", a.obj, a.path))
		}
		return "ref{" + strings.Join(ss, "|") + "}"
	case nil:
		return "<undef>"
	}
	return fmt.Sprintf("%T", v)
}
