package main

// Hash-consed term DAG with eager simplification. Sorts: bool ('b'), bit-vector
// of width w ('v'), float64 ('f').

import (
	"fmt"
	"math"
	"math/big"
	"math/bits"
	"os"
	"sort"
	"strings"
)

type Op uint8

const (
	OConst Op = iota
	OVar
	OAdd
	OSub
	OMul
	OSDiv
	OUDiv
	OSRem
	OURem
	OAnd
	OOr
	OXor
	OShl
	OLShr
	OAShr
	ONeg
	ONot
	OSExt
	OZExt
	OTrunc
	OEq
	OSlt
	OSle
	OUlt
	OUle
	OBAnd
	OBOr
	OBNot
	OIte
	OFAdd
	OFSub
	OFMul
	OFDiv
	OFNeg
	OFLt
	OFLe
	OFEq
	OFIsNaN
	OSToF
	OUToF
	OFToS // Go/amd64 semantics handled by caller
	OFFloor
	OUF // uninterpreted function: name, args
	OMulHiS // signed high word of the double-width product
)

var opNames = map[Op]string{
	OAdd: "bvadd", OSub: "bvsub", OMul: "bvmul", OSDiv: "bvsdiv", OUDiv: "bvudiv", OSRem: "bvsrem", OURem: "bvurem",
	OAnd: "bvand", OOr: "bvor", OXor: "bvxor", OShl: "bvshl", OLShr: "bvlshr", OAShr: "bvashr", ONeg: "bvneg", ONot: "bvnot",
	OEq: "=", OSlt: "bvslt", OSle: "bvsle", OUlt: "bvult", OUle: "bvule", OBAnd: "and", OBOr: "or", OBNot: "not", OIte: "ite",
	OFAdd: "fp.add RNE", OFSub: "fp.sub RNE", OFMul: "fp.mul RNE", OFDiv: "fp.div RNE", OFNeg: "fp.neg", OFLt: "fp.lt", OFLe: "fp.leq", OFEq: "fp.eq", OFIsNaN: "fp.isNaN",
	OFFloor: "fp.roundToIntegral RTN",
}

type Term struct {
	id   int
	op   Op
	kind byte // 'b', 'v', 'f'
	w    int  // width for 'v'
	a    []*Term
	c    uint64 // constant payload (bv value masked to w; bool 0/1; float bits)
	name string
	// signed range for 'v' terms (value interpreted as signed w-bit, w<=64)
	lo, hi int64
}

type TermStore struct {
	tab   map[string]*Term
	all   []*Term
	True  *Term
	False *Term
}

var ts *TermStore

func newTermStore() *TermStore {
	s := &TermStore{tab: map[string]*Term{}}
	s.True = s.intern(&Term{op: OConst, kind: 'b', c: 1})
	s.False = s.intern(&Term{op: OConst, kind: 'b', c: 0})
	return s
}

func (s *TermStore) intern(t *Term) *Term {
	var sb strings.Builder
	fmt.Fprintf(&sb, "%d|%c|%d|%d|%s|", t.op, t.kind, t.w, t.c, t.name)
	for _, x := range t.a {
		fmt.Fprintf(&sb, "%d,", x.id)
	}
	k := sb.String()
	if e, ok := s.tab[k]; ok {
		return e
	}
	t.id = len(s.all)
	s.all = append(s.all, t)
	s.tab[k] = t
	return t
}

func mask(w int) uint64 {
	if w >= 64 {
		return ^uint64(0)
	}
	return (uint64(1) << uint(w)) - 1
}

func sext(v uint64, w int) int64 {
	if w >= 64 {
		return int64(v)
	}
	sh := uint(64 - w)
	return int64(v<<sh) >> sh
}

func fullRange(w int) (int64, int64) {
	if w >= 64 {
		return math.MinInt64, math.MaxInt64
	}
	return -(int64(1) << uint(w-1)), (int64(1) << uint(w-1)) - 1
}

func (t *Term) isConst() bool { return t.op == OConst }
func (t *Term) isTrue() bool  { return t == ts.True }
func (t *Term) isFalse() bool { return t == ts.False }
func (t *Term) sval() int64   { return sext(t.c, t.w) }

func mkBool(b bool) *Term {
	if b {
		return ts.True
	}
	return ts.False
}

func mkConst(w int, v uint64) *Term {
	v &= mask(w)
	t := &Term{op: OConst, kind: 'v', w: w, c: v}
	t.lo = sext(v, w)
	t.hi = t.lo
	return ts.intern(t)
}

func mkConstS(w int, v int64) *Term { return mkConst(w, uint64(v)) }

func mkFConst(f float64) *Term {
	return ts.intern(&Term{op: OConst, kind: 'f', c: math.Float64bits(f)})
}

func mkVar(name string, kind byte, w int) *Term {
	t := &Term{op: OVar, kind: kind, w: w, name: name}
	if kind == 'v' {
		t.lo, t.hi = fullRange(w)
	}
	return ts.intern(t)
}

// mkVarRange creates a bit-vector variable with a declared signed range; the
// caller must add the matching assumption to every query.
func mkVarRange(name string, w int, lo, hi int64) *Term {
	t := &Term{op: OVar, kind: 'v', w: w, name: name, lo: lo, hi: hi}
	return ts.intern(t)
}

func mkNot(a *Term) *Term {
	if a.kind != 'b' {
		panic("mkNot on non-bool")
	}
	if a.isTrue() {
		return ts.False
	}
	if a.isFalse() {
		return ts.True
	}
	if a.op == OBNot {
		return a.a[0]
	}
	return ts.intern(&Term{op: OBNot, kind: 'b', a: []*Term{a}})
}

func litSet(t *Term) []*Term {
	if t.op == OBAnd {
		return t.a
	}
	return []*Term{t}
}

func sortUniq(xs []*Term) []*Term {
	sort.Slice(xs, func(i, j int) bool { return xs[i].id < xs[j].id })
	out := xs[:0]
	for i, x := range xs {
		if i > 0 && xs[i-1] == x {
			continue
		}
		out = append(out, x)
	}
	return out
}

func mkAnd(xs ...*Term) *Term {
	var fl []*Term
	for _, x := range xs {
		if x.kind != 'b' {
			panic("mkAnd on non-bool")
		}
		if x.isFalse() {
			return ts.False
		}
		if x.isTrue() {
			continue
		}
		if x.op == OBAnd {
			fl = append(fl, x.a...)
		} else {
			fl = append(fl, x)
		}
	}
	fl = sortUniq(fl)
	if len(fl) == 0 {
		return ts.True
	}
	// complementary literals
	if len(fl) <= 64 {
		ids := make(map[int]bool, len(fl))
		for _, x := range fl {
			ids[x.id] = true
		}
		for _, x := range fl {
			if x.op == OBNot && ids[x.a[0].id] {
				return ts.False
			}
		}
	}
	if len(fl) == 1 {
		return fl[0]
	}
	return ts.intern(&Term{op: OBAnd, kind: 'b', a: fl})
}

func subsetOf(a, b []*Term) bool { // a ⊆ b, both sorted by id
	i := 0
	for _, x := range b {
		if i < len(a) && a[i] == x {
			i++
		}
	}
	return i == len(a)
}

// tryFactor: (S∧l) ∨ (S∧¬l) = S ; A ∨ (A∧x) = A
func tryFactor(a, b *Term) *Term {
	la, lb := litSet(a), litSet(b)
	if subsetOf(la, lb) {
		return a
	}
	if subsetOf(lb, la) {
		return b
	}
	if len(la) != len(lb) {
		return nil
	}
	// differ in exactly one literal which is complemented
	var da, db *Term
	i, j := 0, 0
	diff := 0
	for i < len(la) || j < len(lb) {
		switch {
		case i < len(la) && j < len(lb) && la[i] == lb[j]:
			i++
			j++
		case j >= len(lb) || (i < len(la) && la[i].id < lb[j].id):
			da = la[i]
			i++
			diff++
		default:
			db = lb[j]
			j++
			diff++
		}
		if diff > 2 {
			return nil
		}
	}
	if da == nil || db == nil {
		return nil
	}
	if (da.op == OBNot && da.a[0] == db) || (db.op == OBNot && db.a[0] == da) {
		var rest []*Term
		for _, x := range la {
			if x != da {
				rest = append(rest, x)
			}
		}
		return mkAnd(rest...)
	}
	return nil
}

func mkOr(xs ...*Term) *Term {
	var fl []*Term
	for _, x := range xs {
		if x.kind != 'b' {
			panic("mkOr on non-bool")
		}
		if x.isTrue() {
			return ts.True
		}
		if x.isFalse() {
			continue
		}
		if x.op == OBOr {
			fl = append(fl, x.a...)
		} else {
			fl = append(fl, x)
		}
	}
	fl = sortUniq(fl)
	if len(fl) == 0 {
		return ts.False
	}
	if len(fl) <= 24 {
		changed := true
		for changed && len(fl) > 1 {
			changed = false
		outer:
			for i := 0; i < len(fl); i++ {
				for j := i + 1; j < len(fl); j++ {
					if (fl[i].op == OBNot && fl[i].a[0] == fl[j]) || (fl[j].op == OBNot && fl[j].a[0] == fl[i]) {
						return ts.True
					}
					if r := tryFactor(fl[i], fl[j]); r != nil {
						if r.isTrue() {
							return ts.True
						}
						nf := []*Term{}
						for k, x := range fl {
							if k != i && k != j {
								nf = append(nf, x)
							}
						}
						if r.op == OBOr {
							nf = append(nf, r.a...)
						} else {
							nf = append(nf, r)
						}
						fl = sortUniq(nf)
						changed = true
						break outer
					}
				}
			}
		}
	}
	if len(fl) == 1 {
		return fl[0]
	}
	return ts.intern(&Term{op: OBOr, kind: 'b', a: fl})
}

func mkImplies(a, b *Term) *Term { return mkOr(mkNot(a), b) }

func mkIte(c, a, b *Term) *Term {
	if c.isTrue() {
		return a
	}
	if c.isFalse() {
		return b
	}
	if a == b {
		return a
	}
	if a.kind != b.kind || a.w != b.w {
		panic(fmt.Sprintf("mkIte sort mismatch %c%d vs %c%d", a.kind, a.w, b.kind, b.w))
	}
	if c.op == OBNot {
		return mkIte(c.a[0], b, a)
	}
	if a.kind == 'b' {
		if a.isTrue() && b.isFalse() {
			return c
		}
		if a.isFalse() && b.isTrue() {
			return mkNot(c)
		}
		if a.isTrue() {
			return mkOr(c, b)
		}
		if a.isFalse() {
			return mkAnd(mkNot(c), b)
		}
		if b.isTrue() {
			return mkOr(mkNot(c), a)
		}
		if b.isFalse() {
			return mkAnd(c, a)
		}
	}
	if b.op == OIte && b.a[0] == c {
		return mkIte(c, a, b.a[2])
	}
	if a.op == OIte && a.a[0] == c {
		return mkIte(c, a.a[1], b)
	}
	// ite(c, x, ite(d, x, y)) = ite(c∨d, x, y)
	if b.op == OIte && b.a[1] == a {
		return mkIte(mkOr(c, b.a[0]), a, b.a[2])
	}
	t := &Term{op: OIte, kind: a.kind, w: a.w, a: []*Term{c, a, b}}
	if a.kind == 'v' {
		t.lo, t.hi = min(a.lo, b.lo), max(a.hi, b.hi)
	}
	return ts.intern(t)
}

func addOvf(a, b int64) (int64, bool) {
	r := a + b
	if (a > 0 && b > 0 && r < 0) || (a < 0 && b < 0 && r >= 0) {
		return 0, true
	}
	return r, false
}

func inW(v int64, w int) bool {
	lo, hi := fullRange(w)
	return v >= lo && v <= hi
}

func mkBin(op Op, a, b *Term) *Term {
	if a.kind != 'v' || b.kind != 'v' || a.w != b.w {
		panic(fmt.Sprintf("mkBin %v sort mismatch %c%d %c%d", op, a.kind, a.w, b.kind, b.w))
	}
	w := a.w
	if a.isConst() && b.isConst() {
		x, y := a.c, b.c
		sx, sy := sext(x, w), sext(y, w)
		switch op {
		case OAdd:
			return mkConst(w, x+y)
		case OSub:
			return mkConst(w, x-y)
		case OMul:
			return mkConst(w, x*y)
		case OAnd:
			return mkConst(w, x&y)
		case OOr:
			return mkConst(w, x|y)
		case OXor:
			return mkConst(w, x^y)
		case OShl:
			if y >= uint64(w) {
				return mkConst(w, 0)
			}
			return mkConst(w, x<<y)
		case OLShr:
			if y >= uint64(w) {
				return mkConst(w, 0)
			}
			return mkConst(w, x>>y)
		case OAShr:
			if y >= uint64(w) {
				y = uint64(w - 1)
			}
			return mkConst(w, uint64(sx>>y))
		case OUDiv:
			if y != 0 {
				return mkConst(w, x/y)
			}
		case OURem:
			if y != 0 {
				return mkConst(w, x%y)
			}
		case OSDiv:
			if sy != 0 {
				if sy == -1 {
					return mkConst(w, uint64(-sx))
				}
				return mkConst(w, uint64(sx/sy))
			}
		case OSRem:
			if sy != 0 {
				if sy == -1 {
					return mkConst(w, 0)
				}
				return mkConst(w, uint64(sx%sy))
			}
		}
	}
	switch op {
	case OAdd:
		if a.isConst() && a.c == 0 {
			return b
		}
		if b.isConst() && b.c == 0 {
			return a
		}
		if a.isConst() { // canonical: const on the right
			a, b = b, a
		}
		// (x + c1) + c2
		if b.isConst() && a.op == OAdd && a.a[1].isConst() {
			return mkBin(OAdd, a.a[0], mkConst(w, a.a[1].c+b.c))
		}
		// a small ite-tree of constants plus a constant stays an ite-tree of constants (string indices etc.)
		if b.isConst() && a.op == OIte {
			if _, ok := iteLeaves(a); ok {
				return mkIte(a.a[0], mkBin(OAdd, a.a[1], b), mkBin(OAdd, a.a[2], b))
			}
		}
	case OSub:
		if b.isConst() && b.c == 0 {
			return a
		}
		if a == b {
			return mkConst(w, 0)
		}
		if b.isConst() {
			return mkBin(OAdd, a, mkConst(w, -b.c))
		}
	case OMul:
		if (a.isConst() && a.c == 0) || (b.isConst() && b.c == 0) {
			return mkConst(w, 0)
		}
		if a.isConst() && a.c == 1 {
			return b
		}
		if b.isConst() && b.c == 1 {
			return a
		}
		if a.isConst() {
			a, b = b, a
		}
	case OAnd:
		if a == b {
			return a
		}
		if (a.isConst() && a.c == 0) || (b.isConst() && b.c == 0) {
			return mkConst(w, 0)
		}
		if a.isConst() && a.c == mask(w) {
			return b
		}
		if b.isConst() && b.c == mask(w) {
			return a
		}
	case OOr, OXor:
		if a.isConst() && a.c == 0 {
			return b
		}
		if b.isConst() && b.c == 0 {
			return a
		}
	case OShl, OLShr, OAShr:
		if b.isConst() && b.c == 0 {
			return a
		}
	case OSDiv, OUDiv:
		if b.isConst() && b.c == 1 {
			return a
		}
	}
	t := &Term{op: op, kind: 'v', w: w, a: []*Term{a, b}}
	t.lo, t.hi = fullRange(w)
	switch op {
	case OAdd:
		l, o1 := addOvf(a.lo, b.lo)
		h, o2 := addOvf(a.hi, b.hi)
		if !o1 && !o2 && inW(l, w) && inW(h, w) {
			t.lo, t.hi = l, h
		}
	case OSub:
		if b.hi != math.MinInt64 && b.lo != math.MinInt64 {
			l, o1 := addOvf(a.lo, -b.hi)
			h, o2 := addOvf(a.hi, -b.lo)
			if !o1 && !o2 && inW(l, w) && inW(h, w) {
				t.lo, t.hi = l, h
			}
		}
	case OURem:
		if b.isConst() && b.sval() > 0 {
			t.lo, t.hi = 0, b.sval()-1
		}
	case OAnd:
		if b.isConst() && b.sval() >= 0 {
			t.lo, t.hi = 0, b.sval()
		} else if a.isConst() && a.sval() >= 0 {
			t.lo, t.hi = 0, a.sval()
		}
	case OMul:
		if a.lo >= 0 && b.lo >= 0 {
			hi1, lo1 := bits.Mul64(uint64(a.hi), uint64(b.hi))
			if hi1 == 0 && int64(lo1) >= 0 && inW(int64(lo1), w) {
				t.lo, t.hi = a.lo*b.lo, int64(lo1)
			}
		}
	case OUDiv:
		if a.lo >= 0 && b.lo > 0 {
			t.lo, t.hi = 0, a.hi
		}
	case OLShr:
		if a.lo >= 0 {
			t.lo, t.hi = 0, a.hi
		}
	}
	return ts.intern(t)
}

func mkNeg(a *Term) *Term {
	if a.isConst() {
		return mkConst(a.w, -a.c)
	}
	t := &Term{op: ONeg, kind: 'v', w: a.w, a: []*Term{a}}
	t.lo, t.hi = fullRange(a.w)
	flo, _ := fullRange(a.w)
	if a.lo != flo {
		t.lo, t.hi = -a.hi, -a.lo
	}
	return ts.intern(t)
}

func mkBVNot(a *Term) *Term {
	if a.isConst() {
		return mkConst(a.w, ^a.c)
	}
	t := &Term{op: ONot, kind: 'v', w: a.w, a: []*Term{a}}
	t.lo, t.hi = fullRange(a.w)
	return ts.intern(t)
}

// mkResize converts a bit-vector to width w, sign- or zero-extending.
func mkResize(a *Term, w int, signed bool) *Term {
	if a.w == w {
		return a
	}
	if a.isConst() {
		if w > a.w {
			if signed {
				return mkConst(w, uint64(sext(a.c, a.w)))
			}
			return mkConst(w, a.c)
		}
		return mkConst(w, a.c)
	}
	if w > a.w {
		op := OZExt
		if signed {
			op = OSExt
		}
		t := &Term{op: op, kind: 'v', w: w, a: []*Term{a}}
		if signed || a.lo >= 0 {
			t.lo, t.hi = a.lo, a.hi
		} else {
			t.lo, t.hi = 0, int64(mask(a.w))
			if w == 64 && a.w == 64 {
				t.lo, t.hi = fullRange(64)
			}
		}
		return ts.intern(t)
	}
	// truncate
	if (a.op == OSExt || a.op == OZExt) && a.a[0].w == w {
		return a.a[0]
	}
	t := &Term{op: OTrunc, kind: 'v', w: w, a: []*Term{a}}
	if inW(a.lo, w) && inW(a.hi, w) {
		t.lo, t.hi = a.lo, a.hi
	} else {
		t.lo, t.hi = fullRange(w)
	}
	return ts.intern(t)
}

func mkEq(a, b *Term) *Term {
	if a == b {
		return ts.True
	}
	if a.kind != b.kind || a.w != b.w {
		panic(fmt.Sprintf("mkEq sort mismatch %c%d %c%d", a.kind, a.w, b.kind, b.w))
	}
	if a.isConst() && b.isConst() {
		return mkBool(a.c == b.c)
	}
	if a.kind == 'b' {
		if a.isTrue() {
			return b
		}
		if b.isTrue() {
			return a
		}
		if a.isFalse() {
			return mkNot(b)
		}
		if b.isFalse() {
			return mkNot(a)
		}
	}
	if a.kind == 'v' {
		if a.hi < b.lo || b.hi < a.lo {
			return ts.False
		}
		// push equality with a constant through a small ite tree with constant leaves
		// (never through arbitrary shared ite DAGs: that expands them into trees)
		if b.isConst() && a.op == OIte {
			if _, ok := iteLeaves(a); ok {
				return mkIte(a.a[0], mkEq(a.a[1], b), mkEq(a.a[2], b))
			}
		}
		if a.isConst() && b.op == OIte {
			if _, ok := iteLeaves(b); ok {
				return mkIte(b.a[0], mkEq(a, b.a[1]), mkEq(a, b.a[2]))
			}
		}
	}
	if a.id > b.id {
		a, b = b, a
	}
	return ts.intern(&Term{op: OEq, kind: 'b', a: []*Term{a, b}})
}

// noWrapFold switches the wrap-test rewrite off (GOSMT_NOWRAPFOLD=1), for differential debugging of the simplifier
var noWrapFold = os.Getenv("GOSMT_NOWRAPFOLD") != ""

// addNoWrap / subNoWrap: the signed intervals of the operands exclude overflow of x+y / x-y at width w
func addNoWrap(x, y *Term, w int) bool {
	l, o1 := addOvf(x.lo, y.lo)
	h, o2 := addOvf(x.hi, y.hi)
	return !o1 && !o2 && inW(l, w) && inW(h, w)
}

func subNoWrap(x, y *Term, w int) bool {
	if y.hi == math.MinInt64 || y.lo == math.MinInt64 {
		return false
	}
	l, o1 := addOvf(x.lo, -y.hi)
	h, o2 := addOvf(x.hi, -y.lo)
	return !o1 && !o2 && inW(l, w) && inW(h, w)
}

func mkCmp(op Op, a, b *Term) *Term {
	if a.kind != 'v' || b.kind != 'v' || a.w != b.w {
		panic(fmt.Sprintf("mkCmp sort mismatch %c%d %c%d", a.kind, a.w, b.kind, b.w))
	}
	w := a.w
	if a.isConst() && b.isConst() {
		switch op {
		case OSlt:
			return mkBool(sext(a.c, w) < sext(b.c, w))
		case OSle:
			return mkBool(sext(a.c, w) <= sext(b.c, w))
		case OUlt:
			return mkBool(a.c < b.c)
		case OUle:
			return mkBool(a.c <= b.c)
		}
	}
	if a == b {
		return mkBool(op == OSle || op == OUle)
	}
	signedOK := op == OSlt || op == OSle || (a.lo >= 0 && b.lo >= 0)
	if signedOK {
		switch op {
		case OSlt, OUlt:
			if a.hi < b.lo {
				return ts.True
			}
			if a.lo >= b.hi {
				return ts.False
			}
		case OSle, OUle:
			if a.hi <= b.lo {
				return ts.True
			}
			if a.lo > b.hi {
				return ts.False
			}
		}
	}
	if op == OUlt && b.isConst() && b.c == 0 {
		return ts.False
	}
	if op == OUle && a.isConst() && a.c == 0 {
		return ts.True
	}
	// the wrap test of saturating arithmetic: when the range analysis shows that x+y (x-y) cannot overflow,
	// (x+y) < x is y < 0 and (x-y) < x is 0 < y. This is what lets the overflow branches of addVal/subVal fold away
	// for quantities far from the int64 limits instead of reaching the solver as mod-2^64 arithmetic.
	if (op == OSlt || op == OSle) && !noWrapFold {
		zero := mkConst(w, 0)
		if a.op == OAdd && addNoWrap(a.a[0], a.a[1], w) {
			if a.a[0] == b {
				return mkCmp(op, a.a[1], zero)
			}
			if a.a[1] == b {
				return mkCmp(op, a.a[0], zero)
			}
		}
		if b.op == OAdd && addNoWrap(b.a[0], b.a[1], w) {
			if b.a[0] == a {
				return mkCmp(op, zero, b.a[1])
			}
			if b.a[1] == a {
				return mkCmp(op, zero, b.a[0])
			}
		}
		if a.op == OSub && a.a[0] == b && subNoWrap(a.a[0], a.a[1], w) {
			return mkCmp(op, zero, a.a[1])
		}
		if b.op == OSub && b.a[0] == a && subNoWrap(b.a[0], b.a[1], w) {
			return mkCmp(op, b.a[1], zero)
		}
	}
	// push comparison with constants through ite when both arms fold
	if b.isConst() && a.op == OIte && a.a[1].isConst() && a.a[2].isConst() {
		return mkIte(a.a[0], mkCmp(op, a.a[1], b), mkCmp(op, a.a[2], b))
	}
	if a.isConst() && b.op == OIte && b.a[1].isConst() && b.a[2].isConst() {
		return mkIte(b.a[0], mkCmp(op, a, b.a[1]), mkCmp(op, a, b.a[2]))
	}
	return ts.intern(&Term{op: op, kind: 'b', a: []*Term{a, b}})
}

// ---- floats ----

func (t *Term) fval() float64 { return math.Float64frombits(t.c) }

func mkFBin(op Op, a, b *Term) *Term {
	if a.isConst() && b.isConst() {
		x, y := a.fval(), b.fval()
		switch op {
		case OFAdd:
			return mkFConst(x + y)
		case OFSub:
			return mkFConst(x - y)
		case OFMul:
			return mkFConst(x * y)
		case OFDiv:
			return mkFConst(x / y)
		}
	}
	return ts.intern(&Term{op: op, kind: 'f', a: []*Term{a, b}})
}

func mkFCmp(op Op, a, b *Term) *Term {
	if a.isConst() && b.isConst() {
		x, y := a.fval(), b.fval()
		switch op {
		case OFLt:
			return mkBool(x < y)
		case OFLe:
			return mkBool(x <= y)
		case OFEq:
			return mkBool(x == y)
		}
	}
	return ts.intern(&Term{op: op, kind: 'b', a: []*Term{a, b}})
}

func mkFUn(op Op, a *Term) *Term {
	if a.isConst() {
		switch op {
		case OFNeg:
			return mkFConst(-a.fval())
		case OFIsNaN:
			return mkBool(math.IsNaN(a.fval()))
		case OFFloor:
			return mkFConst(math.Floor(a.fval()))
		}
	}
	k := byte('f')
	if op == OFIsNaN {
		k = 'b'
	}
	return ts.intern(&Term{op: op, kind: k, a: []*Term{a}})
}

func mkIntToF(a *Term, signed bool) *Term {
	if a.isConst() {
		if signed {
			return mkFConst(float64(sext(a.c, a.w)))
		}
		return mkFConst(float64(a.c))
	}
	op := OUToF
	if signed {
		op = OSToF
	}
	return ts.intern(&Term{op: op, kind: 'f', a: []*Term{a}})
}

// mkFToInt: float64 → signed w-bit with amd64 semantics: NaN / out of range ⇒ MinInt (0x80..0).
func mkFToInt(a *Term, w int) *Term {
	if a.isConst() {
		f := a.fval()
		if w == 64 {
			if math.IsNaN(f) || f >= 9223372036854775808.0 || f < -9223372036854775808.0 {
				return mkConstS(64, math.MinInt64)
			}
			return mkConstS(64, int64(f))
		}
	}
	// int → float64 → int is the identity for integers of magnitude below 2^53 (exactly representable)
	if a.op == OSToF && a.a[0].w == w && a.a[0].lo > -(1<<53) && a.a[0].hi < (1<<53) {
		return a.a[0]
	}
	t := &Term{op: OFToS, kind: 'v', w: w, a: []*Term{a}}
	t.lo, t.hi = fullRange(w)
	return ts.intern(t)
}

func mulHiS(a, b int64) int64 {
	hi, _ := bits.Mul64(uint64(a), uint64(b))
	h := int64(hi)
	if a < 0 {
		h -= b
	}
	if b < 0 {
		h -= a
	}
	return h
}

func mkMulHiS(a, b *Term) *Term {
	if a.w != 64 || b.w != 64 {
		panic("mkMulHiS width")
	}
	if a.isConst() && b.isConst() {
		return mkConstS(64, mulHiS(a.sval(), b.sval()))
	}
	t := &Term{op: OMulHiS, kind: 'v', w: 64, a: []*Term{a, b}}
	t.lo, t.hi = fullRange(64)
	return ts.intern(t)
}

func mkUF(name string, kind byte, w int, args ...*Term) *Term {
	t := &Term{op: OUF, kind: kind, w: w, name: name, a: args}
	if kind == 'v' {
		t.lo, t.hi = fullRange(w)
	}
	return ts.intern(t)
}

// ---- SMT-LIB2 printing ----

func sortStr(t *Term) string {
	switch t.kind {
	case 'b':
		return "Bool"
	case 'f':
		return "(_ FloatingPoint 11 53)"
	}
	return fmt.Sprintf("(_ BitVec %d)", t.w)
}

func bvLit(w int, v uint64) string {
	if w%4 == 0 {
		return fmt.Sprintf("#x%0*x", w/4, v&mask(w))
	}
	return fmt.Sprintf("#b%0*b", w, v&mask(w))
}

type smtPrinter struct {
	sb      strings.Builder
	done    map[int]bool
	vars    map[string]*Term
	ufs     map[string]*Term
	defined []string
}

func newPrinter() *smtPrinter {
	return &smtPrinter{done: map[int]bool{}, vars: map[string]*Term{}, ufs: map[string]*Term{}}
}

func (p *smtPrinter) ref(t *Term) string {
	switch t.op {
	case OConst:
		switch t.kind {
		case 'b':
			if t.c == 1 {
				return "true"
			}
			return "false"
		case 'v':
			return bvLit(t.w, t.c)
		case 'f':
			return fmt.Sprintf("((_ to_fp 11 53) %s)", bvLit(64, t.c))
		}
	case OVar:
		return "|" + t.name + "|"
	}
	return fmt.Sprintf("t%d", t.id)
}

// emit writes define-funs for all non-leaf nodes under t (iteratively, post-order).
func (p *smtPrinter) emit(root *Term) {
	type fr struct {
		t *Term
		i int
	}
	st := []fr{{root, 0}}
	for len(st) > 0 {
		f := &st[len(st)-1]
		t := f.t
		if p.done[t.id] {
			st = st[:len(st)-1]
			continue
		}
		if f.i < len(t.a) {
			c := t.a[f.i]
			f.i++
			if !p.done[c.id] {
				st = append(st, fr{c, 0})
			}
			continue
		}
		st = st[:len(st)-1]
		p.done[t.id] = true
		switch t.op {
		case OConst:
			continue
		case OVar:
			if _, ok := p.vars[t.name]; !ok {
				p.vars[t.name] = t
				fmt.Fprintf(&p.sb, "(declare-fun |%s| () %s)\n", t.name, sortStr(t))
				if t.kind == 'v' {
					// declared range (the simplifier relies on it, so it must be asserted verbatim)
					if lo, hi := fullRange(t.w); t.lo != lo || t.hi != hi {
						fmt.Fprintf(&p.sb, "(assert (and (bvsle %s |%s|) (bvsle |%s| %s)))\n", bvLit(t.w, uint64(t.lo)), t.name, t.name, bvLit(t.w, uint64(t.hi)))
					}
				}
			}
			continue
		}
		fmt.Fprintf(&p.sb, "(define-fun t%d () %s %s)\n", t.id, sortStr(t), p.expr(t))
	}
}

func (p *smtPrinter) expr(t *Term) string {
	r := func(i int) string { return p.ref(t.a[i]) }
	switch t.op {
	case OSExt:
		return fmt.Sprintf("((_ sign_extend %d) %s)", t.w-t.a[0].w, r(0))
	case OZExt:
		return fmt.Sprintf("((_ zero_extend %d) %s)", t.w-t.a[0].w, r(0))
	case OTrunc:
		return fmt.Sprintf("((_ extract %d 0) %s)", t.w-1, r(0))
	case OSToF:
		return fmt.Sprintf("((_ to_fp 11 53) RNE %s)", r(0))
	case OUToF:
		return fmt.Sprintf("((_ to_fp_unsigned 11 53) RNE %s)", r(0))
	case OFToS:
		// amd64 cvttsd2si: NaN or out of range yields the "integer indefinite" value 0x8000...
		lo := math.Float64bits(-math.Ldexp(1, t.w-1))
		hi := math.Float64bits(math.Ldexp(1, t.w-1))
		return fmt.Sprintf("(ite (or (fp.isNaN %[1]s) (fp.lt %[1]s ((_ to_fp 11 53) %[2]s)) (fp.geq %[1]s ((_ to_fp 11 53) %[3]s))) %[4]s ((_ fp.to_sbv %[5]d) RTZ %[1]s))",
			r(0), bvLit(64, lo), bvLit(64, hi), bvLit(t.w, uint64(1)<<uint(t.w-1)), t.w)
	case OMulHiS:
		return fmt.Sprintf("((_ extract 127 64) (bvmul ((_ sign_extend 64) %s) ((_ sign_extend 64) %s)))", r(0), r(1))
	case OUF:
		if _, ok := p.ufs[t.name]; !ok {
			p.ufs[t.name] = t
		}
		if len(t.a) == 0 {
			return "|" + t.name + "|"
		}
		var sb strings.Builder
		sb.WriteString("(|" + t.name + "|")
		for i := range t.a {
			sb.WriteString(" " + r(i))
		}
		sb.WriteString(")")
		return sb.String()
	}
	name, ok := opNames[t.op]
	if !ok {
		panic(fmt.Sprintf("no smt name for op %d", t.op))
	}
	var sb strings.Builder
	sb.WriteString("(" + name)
	for i := range t.a {
		sb.WriteString(" " + r(i))
	}
	sb.WriteString(")")
	return sb.String()
}

// evalTerm evaluates a term under a full assignment of its variables (used by
// translator validation and model checking of witnesses). Returns (value, ok).
func evalTerm(t *Term, env map[string]uint64, memo map[int]uint64) uint64 {
	if v, ok := memo[t.id]; ok {
		return v
	}
	var v uint64
	a := func(i int) uint64 { return evalTerm(t.a[i], env, memo) }
	w := t.w
	switch t.op {
	case OConst:
		v = t.c
	case OVar:
		v = env[t.name]
		if t.kind == 'v' {
			v &= mask(w)
		}
	case OAdd:
		v = a(0) + a(1)
	case OSub:
		v = a(0) - a(1)
	case OMul:
		v = a(0) * a(1)
	case OAnd:
		v = a(0) & a(1)
	case OOr:
		v = a(0) | a(1)
	case OXor:
		v = a(0) ^ a(1)
	case OShl:
		if a(1) >= uint64(w) {
			v = 0
		} else {
			v = a(0) << a(1)
		}
	case OLShr:
		if a(1) >= uint64(w) {
			v = 0
		} else {
			v = a(0) >> a(1)
		}
	case OAShr:
		s := a(1)
		if s >= uint64(w) {
			s = uint64(w - 1)
		}
		v = uint64(sext(a(0), w) >> s)
	case OUDiv:
		if a(1) == 0 {
			v = mask(w)
		} else {
			v = a(0) / a(1)
		}
	case OURem:
		if a(1) == 0 {
			v = a(0)
		} else {
			v = a(0) % a(1)
		}
	case OSDiv:
		x, y := new(big.Int).SetInt64(sext(a(0), w)), new(big.Int).SetInt64(sext(a(1), w))
		if y.Sign() == 0 {
			if x.Sign() >= 0 {
				v = mask(w)
			} else {
				v = 1
			}
		} else {
			v = new(big.Int).Quo(x, y).Uint64()
			if new(big.Int).Quo(x, y).Sign() < 0 {
				v = uint64(new(big.Int).Quo(x, y).Int64())
			}
		}
	case OSRem:
		x, y := sext(a(0), w), sext(a(1), w)
		if y == 0 {
			v = uint64(x)
		} else if y == -1 {
			v = 0
		} else {
			v = uint64(x % y)
		}
	case ONeg:
		v = -a(0)
	case ONot:
		v = ^a(0)
	case OSExt:
		v = uint64(sext(a(0), t.a[0].w))
	case OZExt, OTrunc:
		v = a(0)
	case OEq:
		v = b2u(a(0) == a(1))
	case OSlt:
		v = b2u(sext(a(0), t.a[0].w) < sext(a(1), t.a[0].w))
	case OSle:
		v = b2u(sext(a(0), t.a[0].w) <= sext(a(1), t.a[0].w))
	case OUlt:
		v = b2u(a(0) < a(1))
	case OUle:
		v = b2u(a(0) <= a(1))
	case OBAnd:
		v = 1
		for i := range t.a {
			if a(i) == 0 {
				v = 0
				break
			}
		}
	case OBOr:
		v = 0
		for i := range t.a {
			if a(i) != 0 {
				v = 1
				break
			}
		}
	case OBNot:
		v = 1 - a(0)
	case OIte:
		if a(0) != 0 {
			v = a(1)
		} else {
			v = a(2)
		}
	case OMulHiS:
		v = uint64(mulHiS(int64(a(0)), int64(a(1))))
	case OFAdd:
		v = math.Float64bits(math.Float64frombits(a(0)) + math.Float64frombits(a(1)))
	case OFSub:
		v = math.Float64bits(math.Float64frombits(a(0)) - math.Float64frombits(a(1)))
	case OFMul:
		v = math.Float64bits(math.Float64frombits(a(0)) * math.Float64frombits(a(1)))
	case OFDiv:
		v = math.Float64bits(math.Float64frombits(a(0)) / math.Float64frombits(a(1)))
	case OFNeg:
		v = math.Float64bits(-math.Float64frombits(a(0)))
	case OFFloor:
		v = math.Float64bits(math.Floor(math.Float64frombits(a(0))))
	case OFLt:
		v = b2u(math.Float64frombits(a(0)) < math.Float64frombits(a(1)))
	case OFLe:
		v = b2u(math.Float64frombits(a(0)) <= math.Float64frombits(a(1)))
	case OFEq:
		v = b2u(math.Float64frombits(a(0)) == math.Float64frombits(a(1)))
	case OFIsNaN:
		v = b2u(math.IsNaN(math.Float64frombits(a(0))))
	case OSToF:
		v = math.Float64bits(float64(sext(a(0), t.a[0].w)))
	case OUToF:
		v = math.Float64bits(float64(a(0)))
	case OFToS:
		f := math.Float64frombits(a(0))
		lim := math.Ldexp(1, w-1)
		if math.IsNaN(f) || f >= lim || f < -lim {
			v = uint64(1) << uint(w-1)
		} else {
			v = uint64(int64(f))
		}
	default:
		panic(fmt.Sprintf("evalTerm: op %d", t.op))
	}
	if t.kind == 'v' {
		v &= mask(w)
	}
	memo[t.id] = v
	return v
}

func b2u(b bool) uint64 {
	if b {
		return 1
	}
	return 0
}
