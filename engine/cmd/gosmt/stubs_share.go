package main

// Summary of the float share comparison used by the fair queue sort, exact on the harness' domain:
// CompUsageRatioSeparately(la, lg, lf, ra, rg, rf) with single-type vectors over the type "k0", no guarantee and a
// positive fair-max is the comparison of la[k0]/lf[k0] with ra[k0]/rf[k0]; the summary compares the two ratios by
// cross-multiplication on integers (no floats in the query). The harness only builds such vectors; anything else
// (guarantees, several types, non-positive fair-max) is refused. The vectors are read from the arguments actually
// handed in, so a comparator that pairs a candidate with the WRONG fair-max vector compares the wrong ratio.

import (
	"go/token"
	"go/types"

	"golang.org/x/tools/go/ssa"
)

func shareSummary(x *Exec, fr *Frame, fn *ssa.Function, a []Value, p token.Pos) Value {
	qt := fn.Signature.Params().At(0).Type().(*types.Pointer).Elem().Underlying().(*types.Struct).Field(0).Type().Underlying().(*types.Map).Elem()
	get := func(v Value) *Term {
		res := x.load(fr, asRef(v), p)
		st, ok := res.(VStruct)
		if !ok {
			notEncodable("share summary: not a resource vector")
		}
		val, _ := x.mapLookup(fr, asRef(st.f[0]), concreteStr("k0"), qt, p)
		return asInt(val)
	}
	for _, gi := range []int{1, 4} {
		r := asRef(a[gi])
		for _, al := range r.alts {
			if al.obj != nil && !al.g.isFalse() {
				// must be infeasible: checked by the solver like an unwinding obligation (sat ⇒ run inconclusive)
				x.addObl("unwind", "share summary used outside its domain (a guaranteed resource is set)", x.framePos(fr, p), mkAnd(fr.cur, al.g), ts.False)
			}
		}
	}
	la, lf, ra, rf := get(a[0]), get(a[2]), get(a[3]), get(a[5])
	x.assumes = append(x.assumes, mkImplies(x.alive(fr.cur), mkAnd(mkCmp(OSlt, mkConst(64, 0), lf), mkCmp(OSlt, mkConst(64, 0), rf))))
	l := mkBin(OMul, la, rf)
	r := mkBin(OMul, ra, lf)
	// CompUsageRatioSeparately: 1 if the left share is larger, -1 if the right share is larger
	return VInt{mkIte(mkCmp(OSlt, r, l), mkConst(64, 1), mkIte(mkCmp(OSlt, l, r), mkConstS(64, -1), mkConst(64, 0)))}
}
