package main

// Summary of the float share comparison used by the fair queue sort: CompUsageRatioSeparately(la, lg, lf, ra, rg, rf)
// is replaced by the comparison of an uninterpreted integer "share" per side, a function of the identity of the
// fair-max vector handed in for that side (usage and guarantee vectors are fresh clones on every call and carry no
// identity; the harness gives every candidate its own fair-max object). Any such function induces a total preorder,
// which is all a sort relies on; a comparator that hands the WRONG fair-max vector for a candidate (e.g. indexing a
// side slice by position after swaps) gets a different share for the same candidate and is exposed by the
// permutation-invariance harness.

import (
	"fmt"
	"go/token"

	"golang.org/x/tools/go/ssa"
)

func refID(v Value) string {
	r, ok := v.(VRef)
	if !ok || len(r.alts) != 1 {
		notEncodable("share summary needs concrete vector identities")
	}
	if r.alts[0].obj == nil {
		return "nil"
	}
	if r.alts[0].obj.name != "" {
		return r.alts[0].obj.name
	}
	return fmt.Sprintf("%d", r.alts[0].obj.id)
}

func shareSummary(x *Exec, fr *Frame, fn *ssa.Function, a []Value, p token.Pos) Value {
	// a union of fair-max objects (index chosen symbolically): merge the per-object shares
	share := func(v Value) *Term {
		r := v.(VRef)
		var t *Term
		for i := len(r.alts) - 1; i >= 0; i-- {
			al := r.alts[i]
			id := "nil"
			if al.obj != nil {
				id = fmt.Sprintf("%d", al.obj.id)
			}
			s := x.input("share."+id, "share", 64, 0, 1000, true)
			if t == nil {
				t = s
			} else {
				t = mkIte(al.g, s, t)
			}
		}
		return t
	}
	l, r := share(a[2]), share(a[5])
	return VInt{mkIte(mkCmp(OSlt, l, r), mkConstS(64, -1), mkIte(mkCmp(OSlt, r, l), mkConst(64, 1), mkConst(64, 0)))}
}
