package main

import (
	"bufio"
	"encoding/json"
	"fmt"
	"os"
	"path/filepath"
	"sort"
	"strings"

	"golang.org/x/tools/go/ssa"
)

type KnownFinding struct {
	ID   string
	Text string
}

func loadKnown(prop string) map[string]KnownFinding {
	m := map[string]KnownFinding{}
	f, err := os.Open(filepath.Join(verifDir, "known_findings.txt"))
	if err != nil {
		return m
	}
	defer f.Close()
	sc := bufio.NewScanner(f)
	for sc.Scan() {
		l := strings.TrimSpace(sc.Text())
		if !strings.HasPrefix(l, "known:") {
			continue
		}
		fs := strings.Fields(strings.TrimPrefix(l, "known:"))
		if len(fs) < 2 || fs[0] != "property="+prop || !strings.HasPrefix(fs[1], "finding=") {
			continue
		}
		id := strings.TrimPrefix(fs[1], "finding=")
		m[id] = KnownFinding{ID: id, Text: strings.Join(fs[2:], " ")}
	}
	return m
}

var knownGlobal map[string]KnownFinding
var traceCalls bool
var partialRun bool

type Sample struct {
	Harness string `json:"harness"`
	Kind    string `json:"kind"`
	Label   string `json:"label"`
	Pos     string `json:"pos,omitempty"`
	Verdict string `json:"verdict"`
	Reach   string `json:"reachable,omitempty"`
	SMT     int    `json:"smt_bytes"`
	MS      int64  `json:"solver_ms"`
}

type Report struct {
	cfg        *PropConfig
	seed       int
	known      map[string]KnownFinding
	broken     []string
	violations []string
	knownHit   []string
	knownGone  []string
	obls       int
	discharged int
	nontrivial int
	vacuous    []string
	inconcl    []string
	queries    int
	solverMS   int64
	maxQueryMS int64
	queryTOs   int64
	loadMS     int64
	wall       float64
	samples    []Sample
	funcs      map[string]int
	stubs      map[string]int
	spawned    map[string]int
	uninit     map[string]bool
	harnesses  []map[string]interface{}
	validated  int
	warn       map[string]int
	mismatches []string
	notes      []string
	witnesses  []string
}

func (r *Report) absorb(hr *HarnessResult, outDir string, prog *ssa.Program, sp *ssa.Package) {
	if r.funcs == nil {
		r.funcs, r.stubs, r.spawned, r.uninit = map[string]int{}, map[string]int{}, map[string]int{}, map[string]bool{}
	}
	for k, v := range hr.Funcs {
		r.funcs[k] += v
	}
	for k, v := range hr.Stubs {
		r.stubs[k] += v
	}
	for k, v := range hr.Spawned {
		r.spawned[k] += v
	}
	for _, u := range hr.Uninit {
		r.uninit[u] = true
	}
	if r.warn == nil {
		r.warn = map[string]int{}
	}
	for k, v := range hr.Warnings {
		if !strings.HasPrefix(k, "once:") {
			r.warn[k] += v
		}
	}
	type pending struct {
		o     *Obligation
		w     *Witness
		known string
	}
	var todo []pending
	var valid []*Witness
	maxValid := 2
	if tier == "thorough" {
		maxValid = 5
	}
	hinfo := map[string]interface{}{"name": hr.Name, "exec_ms": hr.ExecMS, "ssa_steps": hr.Steps, "inputs": len(hr.Inputs), "obligations": len(hr.Obls)}
	r.harnesses = append(r.harnesses, hinfo)
	for _, o := range hr.Obls {
		r.obls++
		if len(r.samples) < 12 || (o.Verdict != "unsat" && len(r.samples) < 40) {
			r.samples = append(r.samples, Sample{hr.Name, o.Kind, o.Label, o.Pos, o.Verdict, o.Reach, o.SMTBytes, o.TimeMS})
		}
		id := hr.Name + "/" + o.Label
		switch o.Kind {
		case "assert":
			switch o.Verdict {
			case "unsat":
				if o.Reach == "sat" {
					r.discharged++
					r.nontrivial++
					if len(valid) < maxValid && o.reachLits != nil {
						valid = append(valid, modelToWitness(r.cfg, hr, o, o.reachLits))
					}
				} else if o.Reach == "unsat" {
					r.vacuous = append(r.vacuous, id)
				} else {
					r.inconcl = append(r.inconcl, id+" (reachability "+o.Reach+")")
				}
			case "sat":
				todo = append(todo, pending{o: o, w: modelToWitness(r.cfg, hr, o, o.modelLits)})
			default:
				r.inconcl = append(r.inconcl, id+" ("+o.Verdict+")")
			}
			for kid, kr := range o.knownRes {
				switch kr.Verdict {
				case "sat":
					todo = append(todo, pending{o: o, w: modelToWitness(r.cfg, hr, o, kr.Model), known: kid})
				case "unsat":
					r.knownGone = append(r.knownGone, kid)
				default:
					r.inconcl = append(r.inconcl, id+" known-region "+kid+" ("+kr.Verdict+")")
				}
			}
		case "panic":
			switch o.Verdict {
			case "unsat":
				r.discharged++
			case "sat":
				todo = append(todo, pending{o: o, w: modelToWitness(r.cfg, hr, o, o.modelLits)})
			default:
				r.inconcl = append(r.inconcl, id+" ("+o.Verdict+")")
			}
		case "unwind":
			switch o.Verdict {
			case "unsat":
				r.discharged++
			default:
				r.inconcl = append(r.inconcl, id+" (unwinding bound too small or "+o.Verdict+")")
			}
		case "reach":
			switch o.Verdict {
			case "sat":
				r.discharged++
				if len(valid) < maxValid && o.reachLits != nil {
					valid = append(valid, modelToWitness(r.cfg, hr, o, o.reachLits))
				}
			case "unsat":
				r.vacuous = append(r.vacuous, id+" (harness end unreachable)")
			default:
				r.inconcl = append(r.inconcl, id+" (reach "+o.Verdict+")")
			}
		}
	}
	// extra validation inputs: witness files named in GOSMT_EXTRA_VALID (comma separated) and the files committed under
	// /verif/validation/<harness>.*.json are re-executed concretely by the engine and natively, and must agree
	var extra []string
	if ev := os.Getenv("GOSMT_EXTRA_VALID"); ev != "" {
		extra = append(extra, strings.Split(ev, ",")...)
	}
	if m, _ := filepath.Glob(filepath.Join(verifDir, "validation", hr.Name+".*.json")); len(m) > 0 {
		extra = append(extra, m...)
	}
	for _, f := range extra {
		var w Witness
		if b, err := os.ReadFile(f); err == nil && json.Unmarshal(b, &w) == nil && w.Harness == hr.Name {
			w.Property, w.Dir = r.cfg.ID, hr.Dir
			if w.Pretty == nil {
				w.Pretty = w.Inputs
			}
			valid = append(valid, &w)
		}
	}
	// native replay of counterexamples and validation traces in one batch
	var ws []*Witness
	for _, p := range todo {
		ws = append(ws, p.w)
	}
	nTodo := len(ws)
	ws = append(ws, valid...)
	if len(ws) == 0 {
		return
	}
	outs := replayBatch(outDir, hr.Dir, ws)
	for i, p := range todo {
		out := outs[i]
		id := hr.Name + "/" + p.o.Label
		wpath := filepath.Join(outDir, fmt.Sprintf("%s.%s.witness.json", hr.Name, sanitize(p.o.Label+"_"+p.o.Pos)))
		if p.known != "" {
			wpath = filepath.Join(outDir, fmt.Sprintf("%s.known_%s.witness.json", hr.Name, sanitize(p.known)))
		}
		b, _ := json.MarshalIndent(p.w, "", " ")
		os.WriteFile(wpath, b, 0o644)
		repro := func(out ReplayOutcome) bool {
			if p.o.Kind == "panic" {
				return out.Panic != ""
			}
			for _, f := range out.Fails {
				if f == p.o.Label {
					return true
				}
			}
			return false
		}
		reproduced := repro(out)
		// the real code may depend on Go's random map iteration order (the engine walks maps in key order): one
		// native run that shows the failure is proof enough, so a run that does not is repeated a few times
		for try := 0; !reproduced && out.Err == "" && !out.Outside && try < 4; try++ {
			again := replayBatch(outDir, hr.Dir, []*Witness{p.w})
			if len(again) == 1 && again[0].Err == "" && repro(again[0]) {
				reproduced = true
				out = again[0]
				r.notes = append(r.notes, fmt.Sprintf("%s: counterexample reproduces natively in some runs only (map iteration order)", id))
			}
		}
		switch {
		case out.Err != "":
			r.broken = append(r.broken, id+": replay failed to run: "+out.Err)
		case out.Outside:
			r.mismatches = append(r.mismatches, id+": solver model violates a harness assumption natively (witness "+wpath+")")
		case !reproduced:
			r.mismatches = append(r.mismatches, fmt.Sprintf("%s: counterexample does not reproduce natively (witness %s; native fails=%v panic=%q)", id, wpath, out.Fails, out.Panic))
		case p.known != "":
			kf := r.known[p.known]
			r.knownHit = append(r.knownHit, fmt.Sprintf("KNOWN-FINDING: property=%s %s %s", r.cfg.ID, p.known, kf.Text))
			r.witnesses = append(r.witnesses, wpath)
		default:
			r.violations = append(r.violations, fmt.Sprintf("VIOLATION property=%s replay=%s", r.cfg.ID, wpath))
			fmt.Printf("  counterexample %s [%s] at %s: %v\n", id, p.o.Kind, p.o.Pos, p.w.Pretty)
			r.witnesses = append(r.witnesses, wpath)
		}
	}
	// translator validation: concrete re-execution must agree with the native run
	for i, w := range valid {
		out := outs[nTodo+i]
		if out.Err != "" {
			r.broken = append(r.broken, hr.Name+": validation replay failed to run: "+out.Err)
			break
		}
		conc := map[string]uint64{}
		for k, v := range w.Inputs {
			var u uint64
			fmt.Sscanf(v, "%d", &u)
			conc[k] = u
		}
		chr := runHarness(prog, sp, hr.Dir, hr.Name, conc)
		if chr.Err != "" {
			r.mismatches = append(r.mismatches, hr.Name+": concrete re-execution failed: "+chr.Err)
			continue
		}
		var efails []string
		epanic := false
		for _, o := range chr.Obls {
			g := o.guard
			if !g.isConst() {
				g = mkBool(evalTerm(g, map[string]uint64{}, map[int]uint64{}) != 0)
			}
			if !g.isTrue() {
				continue
			}
			switch o.Kind {
			case "assert":
				c := o.cond
				if !c.isConst() {
					c = mkBool(evalTerm(c, map[string]uint64{}, map[int]uint64{}) != 0)
				}
				if c.isFalse() {
					efails = append(efails, o.Label)
				}
			case "panic":
				epanic = true
			}
		}
		sort.Strings(efails)
		// a witness taken from an early obligation may violate an assumption made later in the harness: then both
		// sides must say so (the native run aborts at the assumption, the engine evaluates it to false)
		eOutside := false
		for _, as := range chr.assumes {
			if as.isFalse() || (!as.isConst() && evalTerm(as, map[string]uint64{}, map[int]uint64{}) == 0) {
				eOutside = true
			}
		}
		agree := func(out ReplayOutcome) string {
			nf := append([]string{}, out.Fails...)
			sort.Strings(nf)
			if out.Outside && eOutside {
				return ""
			}
			if strings.Join(efails, "|") != strings.Join(nf, "|") || epanic != (out.Panic != "") || out.Outside != eOutside {
				return fmt.Sprintf("%s: engine and native run disagree on witness %v: engine fails=%v panic=%v; native fails=%v panic=%q outside=%v", hr.Name, w.Pretty, efails, epanic, nf, out.Panic, out.Outside)
			}
			if strings.Join(chr.x.observes, "|") != strings.Join(out.Obs, "|") {
				return fmt.Sprintf("%s: observed values differ on witness %v: engine %v native %v", hr.Name, w.Pretty, chr.x.observes, out.Obs)
			}
			return ""
		}
		msg := agree(out)
		// The engine iterates Go maps in key order, the native run in random order. When the real code's result depends
		// on the iteration order (it should not, but e.g. victims with equal score and creation time are ordered that
		// way) a native run can differ from the engine and from the next native run: re-run natively before calling
		// it a mismatch, and say so in the evidence.
		for try := 0; msg != "" && try < 3; try++ {
			again := replayBatch(outDir, hr.Dir, []*Witness{w})
			if len(again) == 1 && again[0].Err == "" {
				if m2 := agree(again[0]); m2 == "" {
					r.notes = append(r.notes, fmt.Sprintf("%s: the native run is not deterministic on witness %v (map iteration order); the engine's result agrees with one of the native runs", hr.Name, w.Pretty))
					msg = ""
				}
			}
		}
		if msg != "" {
			r.mismatches = append(r.mismatches, msg)
			continue
		}
		r.validated++
	}
}

func (r *Report) finish(all []*HarnessResult, g *genFiles) int {
	code := 0
	for _, l := range r.knownHit {
		fmt.Println(l)
	}
	for _, n := range r.notes {
		fmt.Println("note:", n)
	}
	for _, k := range r.knownGone {
		fmt.Printf("note: known finding %s no longer reproduces (region unsat)\n", k)
	}
	for _, v := range r.violations {
		fmt.Println(v)
	}
	if len(r.violations) > 0 {
		code = 1
	}
	for _, m := range r.mismatches {
		fmt.Println("ENGINE-MISMATCH", m)
	}
	for _, v := range r.vacuous {
		fmt.Println("VACUOUS", v)
	}
	for _, v := range r.inconcl {
		fmt.Println("INCONCLUSIVE", v)
	}
	for _, b := range r.broken {
		fmt.Println("BROKEN", b)
	}
	if len(all) == 0 {
		fmt.Println("BROKEN no harness matched")
		if code == 0 {
			code = 2
		}
	}
	if code == 0 && (len(r.mismatches) > 0 || len(r.vacuous) > 0 || len(r.inconcl) > 0 || len(r.broken) > 0) {
		code = 2
	}
	// evidence
	var fnames []string
	for f := range r.funcs {
		fnames = append(fnames, f)
	}
	sort.Strings(fnames)
	var repoFuncs []string
	for _, f := range fnames {
		if strings.Contains(f, modPath) && !strings.Contains(f, ".Verif") && !strings.Contains(f, ".v") {
			repoFuncs = append(repoFuncs, strings.ReplaceAll(f, modPath+"/", ""))
		}
	}
	var stubNames []string
	for s := range r.stubs {
		stubNames = append(stubNames, strings.ReplaceAll(s, modPath+"/", ""))
	}
	sort.Strings(stubNames)
	var spawned []string
	for s := range r.spawned {
		spawned = append(spawned, s)
	}
	var uninit []string
	for s := range r.uninit {
		uninit = append(uninit, s)
	}
	sort.Strings(uninit)
	srcHash := map[string]string{}
	for _, d := range r.cfg.Dirs {
		ents, _ := os.ReadDir(filepath.Join(repoDir, d))
		for _, e := range ents {
			if strings.HasSuffix(e.Name(), ".go") && !strings.HasSuffix(e.Name(), "_test.go") {
				srcHash[d+"/"+e.Name()] = fileHash(filepath.Join(repoDir, d, e.Name()))
			}
		}
	}
	assumptions := []string{
		"bounded symbolic execution: every verdict holds only for the world sizes built by the harnesses and the loop unwinding bound (unwinding obligations discharged by the solver)",
		"stubs (no-op or modelled): " + strings.Join(stubNames, ", "),
		"go/ssa faithfully represents the source; engine semantics validated by native replay of every counterexample and by concrete re-execution of solver-produced witnesses",
		"solvers z3 4.8.12 / z3 5.1.0 / cvc5 1.0 are sound",
	}
	for _, o := range r.cfg.Outside {
		assumptions = append(assumptions, "outside the claim: "+o)
	}
	var wk []string
	for k := range r.warn {
		wk = append(wk, k)
	}
	sort.Strings(wk)
	for _, k := range wk {
		assumptions = append(assumptions, fmt.Sprintf("engine note: %s (x%d)", k, r.warn[k]))
	}
	if len(spawned) > 0 {
		assumptions = append(assumptions, "goroutines spawned but not executed: "+strings.Join(spawned, ", "))
	}
	if len(uninit) > 0 {
		assumptions = append(assumptions, "package-level variables read as zero values (initialisers of these packages are not executed): "+strings.Join(uninit, ", "))
	}
	cov := map[string]interface{}{
		"evaluations":                   r.queries,
		"distinct_nontrivial":           r.nontrivial,
		"rule":                          "one SMT query per obligation (assertion violation, implicit panic check, unwinding check) plus one reachability query per assertion; an obligation is non-trivial when the solver showed its guard reachable under the harness assumptions (sat) and the violation query unsat; distinct = distinct (harness,label,position)",
		"samples":                       r.samples,
		"obligations":                   r.obls,
		"discharged":                    r.discharged,
		"traces_validated_against_impl": r.validated,
		"checker_cmd":                   "z3 -in / z3-new -in / cvc5 --incremental (SMT-LIB2 over QF_BV/FP)",
		"trusted_base":                  []string{"go/ssa", "gosmt engine", "z3", "cvc5", "harness spec predicates"},
		"functions_encoded":             repoFuncs,
		"functions_encoded_count":       len(fnames),
		"harnesses":                     r.harnesses,
		"bounds":                        r.cfg.Bounds[tier],
		"solver_ms_total":               r.solverMS,
		"solver_ms_slowest_query":       r.maxQueryMS,
		"solver_timeout_s_per_query":    r.queryTOs,
		"load_ssa_ms":                   r.loadMS,
		"source_hashes":                 srcHash,
		"known_findings_matched":        r.knownHit,
		"vacuous":                       r.vacuous,
		"inconclusive":                  r.inconcl,
		"engine_mismatches":             r.mismatches,
		"validation_notes":              r.notes,
		"witnesses":                     r.witnesses,
		"explanation":                   "bounded symbolic execution of the real functions (go/ssa → SMT-LIB2), one inductive step or product harness per lemma; unsat = holds for all inputs within the bound, sat = concrete counterexample replayed natively",
		"exhaustive":                    false,
	}
	ev := map[string]interface{}{
		"property_id": r.cfg.ID,
		"tier":        tier,
		"seed":        r.seed,
		"level":       r.cfg.Level,
		"coverage":    cov,
		"assumptions": assumptions,
		"wall_s":      r.wall,
		"violations":  len(r.violations),
	}
	b, _ := json.MarshalIndent(ev, "", " ")
	if !partialRun { // a run restricted with -only is a debugging run: it must not replace the evidence of the full check
		os.MkdirAll(filepath.Join(verifDir, "evidence"), 0o755)
		os.WriteFile(filepath.Join(verifDir, "evidence", r.cfg.ID+".json"), b, 0o644)
	}
	fmt.Printf("%s %s: %d obligations, %d discharged (%d non-trivial), %d queries, solver %d ms (slowest %d ms, limit %d s), validated traces %d, wall %.1fs, exit %d\n",
		r.cfg.ID, tier, r.obls, r.discharged, r.nontrivial, r.queries, r.solverMS, r.maxQueryMS, r.queryTOs, r.validated, r.wall, code)
	return code
}
