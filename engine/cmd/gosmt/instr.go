package main

import (
	"fmt"
	"go/token"
	"go/types"
	"strings"
	"unicode/utf8"

	"golang.org/x/tools/go/ssa"
)

func (x *Exec) execInstr(fr *Frame, ins ssa.Instruction) {
	switch i := ins.(type) {
	case *ssa.DebugRef:
	case *ssa.Alloc:
		elem := i.Type().(*types.Pointer).Elem()
		o := x.newObj(KCell, elem, zeroValue(elem))
		fr.env[i] = refTo(o)
	case *ssa.FieldAddr:
		r := asRef(x.val(fr, i.X))
		var alts []RefAlt
		for _, a := range r.alts {
			if a.obj == nil {
				x.panicIf(fr, a.g, "nil pointer dereference (field address)", i.Pos())
				continue
			}
			alts = append(alts, RefAlt{a.g, a.obj, appendPath(a.path, i.Field)})
		}
		if len(alts) == 0 {
			alts = []RefAlt{{ts.False, nil, nil}}
		}
		fr.env[i] = VRef{alts}
	case *ssa.Field:
		fr.env[i] = x.val(fr, i.X).(VStruct).f[i.Field]
	case *ssa.IndexAddr:
		idx := asInt(x.val(fr, i.Index))
		_, signed := intWidth(i.Index.Type())
		idx = mkResize(idx, 64, signed)
		switch xv := x.val(fr, i.X).(type) {
		case VSlice:
			fr.env[i] = x.sliceElemRef(fr, xv, idx, i.Pos())
		case VRef: // pointer to array
			n := int(i.X.Type().Underlying().(*types.Pointer).Elem().Underlying().(*types.Array).Len())
			var alts []RefAlt
			x.panicIf(fr, mkNot(mkCmp(OUlt, idx, mkConst(64, uint64(n)))), "index out of range", i.Pos())
			for _, a := range xv.alts {
				if a.obj == nil {
					x.panicIf(fr, a.g, "nil pointer dereference (array index)", i.Pos())
					continue
				}
				if idx.isConst() {
					k := int(idx.sval())
					if k >= 0 && k < n {
						alts = append(alts, RefAlt{a.g, a.obj, appendPath(a.path, k)})
					}
					continue
				}
				for k := 0; k < n; k++ {
					g := mkAnd(a.g, mkEq(idx, mkConst(64, uint64(k))))
					if !g.isFalse() {
						alts = append(alts, RefAlt{g, a.obj, appendPath(a.path, k)})
					}
				}
			}
			if len(alts) == 0 {
				alts = []RefAlt{{ts.False, nil, nil}}
			}
			fr.env[i] = normRef(alts)
		default:
			notEncodable("IndexAddr on %T", xv)
		}
	case *ssa.Index:
		idx := asInt(x.val(fr, i.Index))
		_, signed := intWidth(i.Index.Type())
		idx = mkResize(idx, 64, signed)
		switch xv := x.val(fr, i.X).(type) {
		case VArray:
			x.panicIf(fr, mkNot(mkCmp(OUlt, idx, mkConst(64, uint64(len(xv.e))))), "index out of range", i.Pos())
			var res Value
			for k := len(xv.e) - 1; k >= 0; k-- {
				if res == nil {
					res = xv.e[k]
				} else {
					res = mergeVal(mkEq(idx, mkConst(64, uint64(k))), xv.e[k], res)
				}
			}
			fr.env[i] = res
		case VStr:
			if len(xv.alts) != 1 || !idx.isConst() {
				notEncodable("symbolic string index at %s", x.framePos(fr, i.Pos()))
			}
			s := xv.alts[0].s
			k := int(idx.sval())
			if k < 0 || k >= len(s) {
				x.panicIf(fr, ts.True, "string index out of range", i.Pos())
				fr.env[i] = VInt{mkConst(8, 0)}
			} else {
				fr.env[i] = VInt{mkConst(8, uint64(s[k]))}
			}
		default:
			notEncodable("Index on %T", xv)
		}
	case *ssa.UnOp:
		x.execUnOp(fr, i)
	case *ssa.BinOp:
		fr.env[i] = x.binop(fr, i.Op, x.val(fr, i.X), x.val(fr, i.Y), i.X.Type(), i.Y.Type(), i.Pos())
	case *ssa.Store:
		x.store(fr, asRef(x.val(fr, i.Addr)), x.val(fr, i.Val), i.Pos())
	case *ssa.Phi:
	case *ssa.If:
		c := asBool(x.val(fr, i.Cond))
		b := i.Block()
		tg := mkAnd(fr.cur, c)
		fg := mkAnd(fr.cur, mkNot(c))
		if fr.skip != nil {
			fg = mkAnd(fg, mkNot(fr.skip))
		}
		// both successors may be the same block
		if b.Succs[0] == b.Succs[1] {
			fr.edge[[2]int{b.Index, b.Succs[0].Index}] = fr.cur
		} else {
			fr.edge[[2]int{b.Index, b.Succs[0].Index}] = tg
			fr.edge[[2]int{b.Index, b.Succs[1].Index}] = fg
		}
	case *ssa.Jump:
		b := i.Block()
		fr.edge[[2]int{b.Index, b.Succs[0].Index}] = fr.cur
	case *ssa.Return:
		var v Value
		switch len(i.Results) {
		case 0:
		case 1:
			v = x.val(fr, i.Results[0])
		default:
			e := make([]Value, len(i.Results))
			for k, r := range i.Results {
				e[k] = x.val(fr, r)
			}
			v = VTuple{e}
		}
		fr.rets = append(fr.rets, retRec{fr.cur, v})
	case *ssa.Panic:
		x.panicIf(fr, ts.True, "explicit panic", i.Pos())
	case *ssa.RunDefers:
		ds := fr.defers
		fr.defers = nil
		for k := len(ds) - 1; k >= 0; k-- {
			d := ds[k]
			g := mkAnd(fr.cur, d.g)
			if g.isFalse() {
				continue
			}
			x.doCall(fr, d.call, d.fnv, d.recv, d.args, g, d.call.Pos())
		}
		// keep the records so that a RunDefers in another exit block also sees them
		fr.defers = ds
	case *ssa.Defer:
		fnv, recv, args := x.evalCall(fr, &i.Call)
		fr.defers = append(fr.defers, deferRec{g: fr.cur, call: &i.Call, fnv: fnv, recv: recv, args: args})
	case *ssa.Go:
		x.evalCall(fr, &i.Call)
		name := "?"
		if f := i.Call.StaticCallee(); f != nil {
			name = f.String()
		}
		x.spawned[name]++
	case *ssa.Call:
		fnv, recv, args := x.evalCall(fr, &i.Call)
		r := x.doCall(fr, &i.Call, fnv, recv, args, fr.cur, i.Pos())
		fr.env[i] = r
	case *ssa.Extract:
		fr.env[i] = x.val(fr, i.Tuple).(VTuple).e[i.Index]
	case *ssa.MakeInterface:
		fr.env[i] = VIface{[]IfaceAlt{{ts.True, i.X.Type(), x.val(fr, i.X)}}}
	case *ssa.ChangeInterface:
		fr.env[i] = x.val(fr, i.X)
	case *ssa.ChangeType:
		fr.env[i] = x.val(fr, i.X)
	case *ssa.Convert:
		fr.env[i] = x.convert(fr, x.val(fr, i.X), i.X.Type(), i.Type(), i.Pos())
	case *ssa.MultiConvert:
		fr.env[i] = x.convert(fr, x.val(fr, i.X), i.X.Type(), i.Type(), i.Pos())
	case *ssa.SliceToArrayPointer:
		notEncodable("SliceToArrayPointer")
	case *ssa.TypeAssert:
		x.typeAssert(fr, i)
	case *ssa.MakeClosure:
		fn := i.Fn.(*ssa.Function)
		b := make([]Value, len(i.Bindings))
		for k, bv := range i.Bindings {
			b[k] = x.val(fr, bv)
		}
		fr.env[i] = VFunc{[]FuncAlt{{g: ts.True, fn: fn, binds: b}}}
	case *ssa.MakeMap:
		o := x.newObj(KMap, i.Type(), nil)
		fr.env[i] = refTo(o)
	case *ssa.MakeChan:
		o := x.newObj(KChan, i.Type(), nil)
		fr.env[i] = refTo(o)
	case *ssa.MakeSlice:
		elem := i.Type().Underlying().(*types.Slice).Elem()
		ln := mkResize(asInt(x.val(fr, i.Len)), 64, true)
		cp := mkResize(asInt(x.val(fr, i.Cap)), 64, true)
		x.panicIf(fr, mkCmp(OSlt, ln, mkConst(64, 0)), "makeslice: len out of range", i.Pos())
		var n int
		switch {
		case cp.isConst():
			n = int(cp.sval())
		case cp.hi < 1<<12:
			n = int(cp.hi)
		default:
			// unbounded symbolic size: allocate the harness-wide slice bound and require (unwinding-style) that it suffices
			n = x.sliceBound
			x.addObl("unwind", fmt.Sprintf("make([]T, n) at %s needs more than the slice bound %d", x.framePos(fr, i.Pos()), n), x.framePos(fr, i.Pos()), mkAnd(fr.cur, mkCmp(OSlt, mkConst(64, uint64(n)), cp)), ts.False)
			x.dead = mkOr(x.dead, mkAnd(fr.cur, mkCmp(OSlt, mkConst(64, uint64(n)), cp)))
		}
		if n < 0 || n > 1<<14 {
			notEncodable("make([]T, %d) too large at %s", n, x.framePos(fr, i.Pos()))
		}
		arr := x.newArray(elem, n)
		fr.env[i] = VSlice{[]SliceAlt{{g: ts.True, obj: arr, off: 0, len: ln, cap: n}}}
	case *ssa.Slice:
		x.execSlice(fr, i)
	case *ssa.Lookup:
		if _, ok := i.X.Type().Underlying().(*types.Map); ok {
			m := asRef(x.val(fr, i.X))
			v, found := x.mapLookup(fr, m, x.val(fr, i.Index), i.X.Type().Underlying().(*types.Map).Elem(), i.Pos())
			if i.CommaOk {
				fr.env[i] = VTuple{[]Value{v, VBool{found}}}
			} else {
				fr.env[i] = v
			}
		} else {
			s := x.val(fr, i.X).(VStr)
			idx := asInt(x.val(fr, i.Index))
			if len(s.alts) != 1 || !idx.isConst() {
				notEncodable("symbolic string lookup")
			}
			k := int(idx.sval())
			if k < 0 || k >= len(s.alts[0].s) {
				x.panicIf(fr, ts.True, "string index out of range", i.Pos())
				fr.env[i] = VInt{mkConst(8, 0)}
			} else {
				fr.env[i] = VInt{mkConst(8, uint64(s.alts[0].s[k]))}
			}
		}
	case *ssa.MapUpdate:
		x.mapUpdate(fr, asRef(x.val(fr, i.Map)), x.val(fr, i.Key), x.val(fr, i.Value), i.Pos())
	case *ssa.Range:
		switch xv := x.val(fr, i.X).(type) {
		case VRef:
			fr.env[i] = &VIter{m: xv}
		case VStr:
			if len(xv.alts) != 1 {
				notEncodable("range over symbolic string")
			}
			fr.env[i] = &VIter{isStr: true, str: xv.alts[0].s}
		case nil:
			// undefined value: every path reaching this point already panicked
			fr.env[i] = &VIter{}
		default:
			notEncodable("range over %T", xv)
		}
	case *ssa.Next:
		x.execNext(fr, i)
	case *ssa.Send:
		// not modelled
	case *ssa.Select:
		notEncodable("select at %s", x.framePos(fr, i.Pos()))
	default:
		notEncodable("instruction %T at %s", ins, x.framePos(fr, ins.Pos()))
	}
}

// asRef: a reference value; an undefined value (produced only on paths that all panicked) has no alternatives
func asRef(v Value) VRef {
	if v == nil {
		return VRef{[]RefAlt{{ts.False, nil, nil}}}
	}
	return v.(VRef)
}

func (x *Exec) execNext(fr *Frame, i *ssa.Next) {
	it := x.val(fr, i.Iter).(*VIter)
	tt := i.Type().(*types.Tuple)
	if it.isStr {
		if it.pos >= len(it.str) {
			fr.env[i] = VTuple{[]Value{VBool{ts.False}, VInt{mkConst(64, 0)}, VInt{mkConst(32, 0)}}}
			return
		}
		r, sz := utf8.DecodeRuneInString(it.str[it.pos:])
		fr.env[i] = VTuple{[]Value{VBool{ts.True}, VInt{mkConst(64, uint64(it.pos))}, VInt{mkConst(32, uint64(r))}}}
		it.pos += sz
		return
	}
	kt, vt := tt.At(1).Type(), tt.At(2).Type()
	zero := func() Value {
		var k, v Value
		if _, ok := kt.Underlying().(*types.Basic); ok && kt.Underlying().(*types.Basic).Kind() == types.Invalid {
			k = nil
		} else {
			k = zeroValue(kt)
		}
		if b, ok := vt.Underlying().(*types.Basic); ok && b.Kind() == types.Invalid {
			v = nil
		} else {
			v = zeroValue(vt)
		}
		return VTuple{[]Value{VBool{ts.False}, k, v}}
	}
	// iteration BY KEY over the union of the key tables of all alternatives of the map reference:
	// one visit per distinct key (presence and value merged over the alternatives), so a map field that
	// became a union of many objects does not multiply the number of iterations
	if it.seen == nil {
		it.seen = map[string]bool{}
	}
	var pres *Term
	var k, v Value
	found := false
	for !found {
		var ks string
		got := false
		for _, a := range it.m.alts {
			if a.obj == nil {
				continue
			}
			for _, cand := range a.obj.keys {
				if !it.seen[cand] {
					ks, got = cand, true
					break
				}
			}
			if got {
				break
			}
		}
		if !got {
			break
		}
		it.seen[ks] = true
		pres = ts.False
		first := true
		for j := len(it.m.alts) - 1; j >= 0; j-- {
			a := it.m.alts[j]
			if a.obj == nil {
				continue
			}
			c := a.obj.ents[ks]
			if c == nil {
				continue
			}
			p := mkAnd(a.g, c.present)
			if p.isFalse() {
				continue
			}
			if first {
				k, v, first = c.key, c.val, false
			} else {
				v = mergeVal(p, c.val, v)
			}
			pres = mkOr(pres, p)
		}
		if !pres.isFalse() {
			found = true
		}
	}
	if !found {
		fr.env[i] = zero()
		return
	}
	z := zero().(VTuple)
	if z.e[1] == nil {
		k = nil
	}
	if z.e[2] == nil {
		v = nil
	}
	fr.env[i] = VTuple{[]Value{VBool{pres}, k, v}}
	if !pres.isTrue() {
		fr.skip = mkAnd(fr.cur, mkNot(pres))
	}
}

func (x *Exec) execSlice(fr *Frame, i *ssa.Slice) {
	getI := func(v ssa.Value) *Term {
		if v == nil {
			return nil
		}
		_, signed := intWidth(v.Type())
		return mkResize(asInt(x.val(fr, v)), 64, signed)
	}
	lo, hi, mx := getI(i.Low), getI(i.High), getI(i.Max)
	if mx != nil {
		notEncodable("3-index slice")
	}
	switch xv := x.val(fr, i.X).(type) {
	case VStr:
		// bounds may be small ite-trees of constants (e.g. strings.LastIndex applied per alternative): enumerate them
		boundVals := func(t *Term, def int64) []*Term {
			if t == nil {
				return []*Term{nil}
			}
			if t.isConst() {
				return []*Term{t}
			}
			leaves, ok := iteLeaves(t)
			if !ok {
				notEncodable("symbolic string slice at %s", x.framePos(fr, i.Pos()))
			}
			return leaves
		}
		var alts []StrAlt
		for _, a := range xv.alts {
			for _, lc := range boundVals(lo, 0) {
				for _, hc := range boundVals(hi, 0) {
					g := a.g
					l, h := 0, len(a.s)
					if lc != nil {
						l = int(lc.sval())
						g = mkAnd(g, mkEq(lo, lc))
					}
					if hc != nil {
						h = int(hc.sval())
						g = mkAnd(g, mkEq(hi, hc))
					}
					if g.isFalse() {
						continue
					}
					if l < 0 || h > len(a.s) || l > h {
						x.panicIf(fr, g, "string slice bounds out of range", i.Pos())
						continue
					}
					alts = append(alts, StrAlt{g, a.s[l:h]})
				}
			}
		}
		fr.env[i] = normStr(alts)
	case VRef: // pointer to array
		n := int(i.X.Type().Underlying().(*types.Pointer).Elem().Underlying().(*types.Array).Len())
		var sa []SliceAlt
		for _, a := range xv.alts {
			if a.obj == nil {
				x.panicIf(fr, a.g, "nil pointer dereference (slice of array)", i.Pos())
				continue
			}
			sa = append(sa, SliceAlt{g: a.g, obj: a.obj, path: a.path, off: 0, len: mkConst(64, uint64(n)), cap: n})
		}
		fr.env[i] = x.reslice(fr, VSlice{sa}, lo, hi, i.Pos())
	case VSlice:
		fr.env[i] = x.reslice(fr, xv, lo, hi, i.Pos())
	default:
		notEncodable("Slice on %T", xv)
	}
}

func (x *Exec) reslice(fr *Frame, s VSlice, lo, hi *Term, p token.Pos) Value {
	var out []SliceAlt
	for _, a := range s.alts {
		l := lo
		if l == nil {
			l = mkConst(64, 0)
		}
		h := hi
		if h == nil {
			h = a.len
		}
		capT := mkConst(64, uint64(a.cap))
		// 0 <= l <= h <= cap
		bad := mkOr(mkNot(mkCmp(OUle, l, h)), mkNot(mkCmp(OUle, h, capT)))
		x.panicIf(fr, mkAnd(a.g, bad), "slice bounds out of range", p)
		if a.obj == nil {
			out = append(out, SliceAlt{g: a.g, len: mkConst(64, 0)})
			continue
		}
		if l.isConst() {
			k := int(l.sval())
			if k < 0 || k > a.cap {
				continue
			}
			out = append(out, SliceAlt{g: a.g, obj: a.obj, path: a.path, off: a.off + k, len: mkBin(OSub, h, l), cap: a.cap - k})
			continue
		}
		for k := 0; k <= a.cap; k++ {
			g := mkAnd(a.g, mkEq(l, mkConst(64, uint64(k))))
			if g.isFalse() {
				continue
			}
			out = append(out, SliceAlt{g: g, obj: a.obj, path: a.path, off: a.off + k, len: mkBin(OSub, h, mkConst(64, uint64(k))), cap: a.cap - k})
		}
	}
	return normSlice(out)
}

func (x *Exec) execUnOp(fr *Frame, i *ssa.UnOp) {
	v := x.val(fr, i.X)
	switch i.Op {
	case token.MUL:
		fr.env[i] = x.load(fr, asRef(v), i.Pos())
	case token.SUB:
		switch t := v.(type) {
		case VInt:
			fr.env[i] = VInt{mkNeg(t.t)}
		case VFloat:
			fr.env[i] = VFloat{mkFUn(OFNeg, t.t)}
		default:
			notEncodable("neg %T", v)
		}
	case token.NOT:
		fr.env[i] = VBool{mkNot(asBool(v))}
	case token.XOR:
		fr.env[i] = VInt{mkBVNot(asInt(v))}
	case token.ARROW:
		// receive: arbitrary value of the element type
		var et types.Type
		if ch, ok := i.X.Type().Underlying().(*types.Chan); ok {
			et = ch.Elem()
		}
		rv := x.freshValue(et, "recv")
		if i.CommaOk {
			fr.env[i] = VTuple{[]Value{rv, VBool{ts.True}}}
		} else {
			fr.env[i] = rv
		}
	default:
		notEncodable("unop %s", i.Op)
	}
}

// freshValue builds an arbitrary (opaque) value of a type: pointers are fresh non-nil objects.
func (x *Exec) freshValue(t types.Type, hint string) Value {
	if t == nil {
		return nil
	}
	switch u := t.Underlying().(type) {
	case *types.Pointer:
		o := x.newObj(KCell, u.Elem(), zeroValue(u.Elem()))
		return refTo(o)
	}
	return zeroValue(t)
}

func (x *Exec) binop(fr *Frame, op token.Token, a, b Value, ta, tb types.Type, p token.Pos) Value {
	if a == nil || b == nil {
		// an operand is undefined: it was produced on paths that all panicked (dead code in this run)
		x.warnings["operation on an undefined value (dead path) at "+x.framePos(fr, p)]++
		if op == token.EQL || op == token.NEQ || op == token.LSS || op == token.LEQ || op == token.GTR || op == token.GEQ {
			return VBool{ts.False}
		}
		return nil
	}
	switch av := a.(type) {
	case VInt:
		bv, ok := b.(VInt)
		if !ok {
			notEncodable("binop int with %T", b)
		}
		w, signed := intWidth(ta)
		if w == 0 {
			w, signed = av.t.w, true
		}
		x1, y1 := av.t, bv.t
		switch op {
		case token.SHL, token.SHR:
			// shift count: any unsigned (or signed non-negative) integer
			_, cs := intWidth(tb)
			if cs {
				x.panicIf(fr, mkCmp(OSlt, y1, mkConst(y1.w, 0)), "negative shift amount", p)
			}
			c64 := mkResize(y1, 64, false)
			big := mkNot(mkCmp(OUlt, c64, mkConst(64, uint64(w))))
			cnt := mkResize(mkIte(big, mkConst(64, uint64(w)), c64), w, false)
			if w < 8 { // never
				notEncodable("tiny width")
			}
			if w == 8 && !big.isFalse() {
				// 8 fits in 8 bits
			}
			switch {
			case op == token.SHL:
				return VInt{mkBin(OShl, x1, cnt)}
			case signed:
				return VInt{mkBin(OAShr, x1, cnt)}
			default:
				return VInt{mkBin(OLShr, x1, cnt)}
			}
		}
		if x1.w != y1.w {
			notEncodable("binop width mismatch %d %d at %s", x1.w, y1.w, x.framePos(fr, p))
		}
		switch op {
		case token.ADD:
			return VInt{mkBin(OAdd, x1, y1)}
		case token.SUB:
			return VInt{mkBin(OSub, x1, y1)}
		case token.MUL:
			return VInt{mkBin(OMul, x1, y1)}
		case token.QUO:
			x.panicIf(fr, mkEq(y1, mkConst(w, 0)), "integer divide by zero", p)
			if signed {
				return VInt{mkBin(OSDiv, x1, y1)}
			}
			return VInt{mkBin(OUDiv, x1, y1)}
		case token.REM:
			x.panicIf(fr, mkEq(y1, mkConst(w, 0)), "integer divide by zero", p)
			if signed {
				return VInt{mkBin(OSRem, x1, y1)}
			}
			return VInt{mkBin(OURem, x1, y1)}
		case token.AND:
			return VInt{mkBin(OAnd, x1, y1)}
		case token.OR:
			return VInt{mkBin(OOr, x1, y1)}
		case token.XOR:
			return VInt{mkBin(OXor, x1, y1)}
		case token.AND_NOT:
			return VInt{mkBin(OAnd, x1, mkBVNot(y1))}
		case token.EQL:
			return VBool{mkEq(x1, y1)}
		case token.NEQ:
			return VBool{mkNot(mkEq(x1, y1))}
		case token.LSS:
			if signed {
				return VBool{mkCmp(OSlt, x1, y1)}
			}
			return VBool{mkCmp(OUlt, x1, y1)}
		case token.LEQ:
			if signed {
				return VBool{mkCmp(OSle, x1, y1)}
			}
			return VBool{mkCmp(OUle, x1, y1)}
		case token.GTR:
			if signed {
				return VBool{mkCmp(OSlt, y1, x1)}
			}
			return VBool{mkCmp(OUlt, y1, x1)}
		case token.GEQ:
			if signed {
				return VBool{mkCmp(OSle, y1, x1)}
			}
			return VBool{mkCmp(OUle, y1, x1)}
		}
	case VFloat:
		bv := b.(VFloat)
		switch op {
		case token.ADD:
			return VFloat{mkFBin(OFAdd, av.t, bv.t)}
		case token.SUB:
			return VFloat{mkFBin(OFSub, av.t, bv.t)}
		case token.MUL:
			return VFloat{mkFBin(OFMul, av.t, bv.t)}
		case token.QUO:
			return VFloat{mkFBin(OFDiv, av.t, bv.t)}
		case token.EQL:
			return VBool{mkFCmp(OFEq, av.t, bv.t)}
		case token.NEQ:
			return VBool{mkNot(mkFCmp(OFEq, av.t, bv.t))}
		case token.LSS:
			return VBool{mkFCmp(OFLt, av.t, bv.t)}
		case token.LEQ:
			return VBool{mkFCmp(OFLe, av.t, bv.t)}
		case token.GTR:
			return VBool{mkFCmp(OFLt, bv.t, av.t)}
		case token.GEQ:
			return VBool{mkFCmp(OFLe, bv.t, av.t)}
		}
	case VBool:
		bv := b.(VBool)
		switch op {
		case token.EQL:
			return VBool{mkEq(av.t, bv.t)}
		case token.NEQ:
			return VBool{mkNot(mkEq(av.t, bv.t))}
		case token.AND:
			return VBool{mkAnd(av.t, bv.t)}
		case token.OR:
			return VBool{mkOr(av.t, bv.t)}
		}
	case VStr:
		bv := b.(VStr)
		switch op {
		case token.ADD:
			if len(av.alts)*len(bv.alts) > 4096 {
				// message text built from many alternatives: an opaque string that equals no literal
				x.warnings["opaque string from a concatenation with more than 64 alternatives at "+x.framePos(fr, p)]++
				return concreteStr("\x00<opaque>")
			}
			var alts []StrAlt
			for _, p1 := range av.alts {
				for _, q := range bv.alts {
					alts = append(alts, StrAlt{mkAnd(p1.g, q.g), p1.s + q.s})
				}
			}
			return normStr(alts)
		case token.EQL:
			return VBool{x.valEq(a, b)}
		case token.NEQ:
			return VBool{mkNot(x.valEq(a, b))}
		case token.LSS, token.LEQ, token.GTR, token.GEQ:
			r := ts.False
			for _, p1 := range av.alts {
				for _, q := range bv.alts {
					var c bool
					switch op {
					case token.LSS:
						c = p1.s < q.s
					case token.LEQ:
						c = p1.s <= q.s
					case token.GTR:
						c = p1.s > q.s
					case token.GEQ:
						c = p1.s >= q.s
					}
					if c {
						r = mkOr(r, mkAnd(p1.g, q.g))
					}
				}
			}
			return VBool{r}
		}
	default:
		switch op {
		case token.EQL:
			return VBool{x.valEq(a, b)}
		case token.NEQ:
			return VBool{mkNot(x.valEq(a, b))}
		}
	}
	notEncodable("binop %s on %T at %s", op, a, x.framePos(fr, p))
	return nil
}

func (x *Exec) convert(fr *Frame, v Value, from, to types.Type, p token.Pos) Value {
	fu, tu := from.Underlying(), to.Underlying()
	switch val := v.(type) {
	case VInt:
		if w, _ := intWidth(to); w != 0 {
			_, fs := intWidth(from)
			return VInt{mkResize(val.t, w, fs)}
		}
		if isFloat(to) {
			_, fs := intWidth(from)
			return VFloat{mkIntToF(val.t, fs)}
		}
		if b, ok := tu.(*types.Basic); ok && b.Info()&types.IsString != 0 {
			if val.t.isConst() {
				return concreteStr(string(rune(val.t.sval())))
			}
		}
		if b, ok := tu.(*types.Basic); ok && b.Kind() == types.UnsafePointer {
			return nilRef()
		}
	case VFloat:
		if isFloat(to) {
			return val
		}
		if w, signed := intWidth(to); w != 0 {
			if !signed && !val.t.isConst() {
				notEncodable("float→unsigned conversion at %s", x.framePos(fr, p))
			}
			if val.t.op == OSToF && val.t.a[0].w == w {
				// int → float64 → int: the identity below 2^53; that side condition is a proof obligation
				// (checked like an unwinding bound), so the query stays free of floating point
				y := val.t.a[0]
				x.exactFloatObl(fr, y, p)
				return VInt{y}
			}
			return VInt{mkFToInt(val.t, w)}
		}
	case VStr:
		if _, ok := tu.(*types.Basic); ok {
			return val
		}
		if sl, ok := tu.(*types.Slice); ok {
			if len(val.alts) != 1 {
				notEncodable("[]byte(symbolic string)")
			}
			s := val.alts[0].s
			eb := sl.Elem().Underlying().(*types.Basic)
			if eb.Kind() == types.Uint8 {
				arr := x.newArray(sl.Elem(), len(s))
				for k := 0; k < len(s); k++ {
					arr.val.(VArray).e[k] = VInt{mkConst(8, uint64(s[k]))}
				}
				return VSlice{[]SliceAlt{{g: ts.True, obj: arr, len: mkConst(64, uint64(len(s))), cap: len(s)}}}
			}
			rs := []rune(s)
			arr := x.newArray(sl.Elem(), len(rs))
			for k := range rs {
				arr.val.(VArray).e[k] = VInt{mkConst(32, uint64(rs[k]))}
			}
			return VSlice{[]SliceAlt{{g: ts.True, obj: arr, len: mkConst(64, uint64(len(rs))), cap: len(rs)}}}
		}
	case VSlice:
		if b, ok := tu.(*types.Basic); ok && b.Info()&types.IsString != 0 {
			cells, ln := x.sliceCells(val)
			if !ln.isConst() {
				notEncodable("string(symbolic-length slice)")
			}
			var sb strings.Builder
			ew := 8
			if sl, ok := fu.(*types.Slice); ok {
				ew, _ = intWidth(sl.Elem())
			}
			for k := 0; k < int(ln.sval()); k++ {
				c := asInt(cells[k])
				if !c.isConst() {
					notEncodable("string(symbolic bytes)")
				}
				if ew == 8 {
					sb.WriteByte(byte(c.c))
				} else {
					sb.WriteRune(rune(c.sval()))
				}
			}
			return concreteStr(sb.String())
		}
	case VRef:
		return val // pointer <-> unsafe.Pointer
	}
	notEncodable("convert %s → %s at %s", from, to, x.framePos(fr, p))
	return nil
}

func (x *Exec) typeAssert(fr *Frame, i *ssa.TypeAssert) {
	iv := x.val(fr, i.X).(VIface)
	at := i.AssertedType
	_, toIface := at.Underlying().(*types.Interface)
	okT := ts.False
	var res Value
	if toIface {
		var alts []IfaceAlt
		for _, a := range iv.alts {
			if a.typ != nil && types.AssertableTo(at.Underlying().(*types.Interface), a.typ) && types.Implements(a.typ, at.Underlying().(*types.Interface)) {
				alts = append(alts, a)
				okT = mkOr(okT, a.g)
			}
		}
		if len(alts) == 0 {
			res = nilIface()
		} else {
			// failing alternatives yield nil
			alts = append(alts, IfaceAlt{mkNot(okT), nil, nil})
			res = normIface(alts)
		}
	} else {
		first := true
		for k := len(iv.alts) - 1; k >= 0; k-- {
			a := iv.alts[k]
			if a.typ != nil && types.Identical(a.typ, at) {
				okT = mkOr(okT, a.g)
				if first {
					res = a.val
					first = false
				} else {
					res = mergeVal(a.g, a.val, res)
				}
			}
		}
		if first {
			res = zeroValue(at)
		} else if !okT.isTrue() {
			res = mergeVal(okT, res, zeroValue(at))
		}
	}
	if i.CommaOk {
		fr.env[i] = VTuple{[]Value{res, VBool{okT}}}
	} else {
		x.panicIf(fr, mkNot(okT), "interface conversion (type assertion failed)", i.Pos())
		fr.env[i] = res
	}
}

// ---------- calls ----------

func (x *Exec) evalCall(fr *Frame, c *ssa.CallCommon) (fnv Value, recv Value, args []Value) {
	args = make([]Value, len(c.Args))
	for k, a := range c.Args {
		args[k] = x.val(fr, a)
	}
	if c.IsInvoke() {
		recv = x.val(fr, c.Value)
		return nil, recv, args
	}
	switch v := c.Value.(type) {
	case *ssa.Builtin:
		return VOpaque{v.Type()}, nil, args
	}
	return x.val(fr, c.Value), nil, args
}

func (x *Exec) doCall(fr *Frame, c *ssa.CallCommon, fnv, recv Value, args []Value, g *Term, p token.Pos) Value {
	saveCur := fr.cur
	defer func() { fr.cur = saveCur }()
	if c.IsInvoke() {
		iv, ok := recv.(VIface)
		if !ok {
			notEncodable("invoke on %T at %s", recv, x.framePos(fr, p))
		}
		var res Value
		first := true
		for k := len(iv.alts) - 1; k >= 0; k-- {
			a := iv.alts[k]
			ag := mkAnd(g, a.g)
			if ag.isFalse() {
				continue
			}
			if a.typ == nil {
				fr.cur = g
				x.panicIf(fr, a.g, "nil interface method call "+c.Method.Name(), p)
				continue
			}
			var r Value
			if st := x.findInvokeStub(a.typ, c.Method); st != nil {
				fr.cur = ag
				r = st(x, fr, nil, append([]Value{a.val}, args...), p)
			} else {
				sel := x.prog.MethodSets.MethodSet(a.typ).Lookup(c.Method.Pkg(), c.Method.Name())
				if sel == nil {
					notEncodable("method %s not found on %s", c.Method.Name(), a.typ)
				}
				fn := x.prog.MethodValue(sel)
				if fn == nil {
					notEncodable("no method value for %s on %s", c.Method.Name(), a.typ)
				}
				r = x.callFunction(fr, fn, append([]Value{a.val}, args...), nil, ag, p)
			}
			if first {
				res = r
				first = false
			} else {
				res = mergeVal(a.g, r, res)
			}
		}
		if first {
			return x.zeroResults(c.Signature())
		}
		return res
	}
	if b, ok := c.Value.(*ssa.Builtin); ok {
		fr.cur = g
		return x.builtin(fr, b, c, args, p)
	}
	fv, ok := fnv.(VFunc)
	if !ok {
		notEncodable("call of %T at %s", fnv, x.framePos(fr, p))
	}
	var res Value
	first := true
	for k := len(fv.alts) - 1; k >= 0; k-- {
		a := fv.alts[k]
		ag := mkAnd(g, a.g)
		if ag.isFalse() {
			continue
		}
		if a.native != nil {
			fr.cur = ag
			r := a.native(x, fr, args)
			if first {
				res = r
				first = false
			} else {
				res = mergeVal(a.g, r, res)
			}
			continue
		}
		if a.fn == nil {
			fr.cur = g
			x.panicIf(fr, a.g, "call of nil function", p)
			continue
		}
		r := x.callFunction(fr, a.fn, args, a.binds, ag, p)
		if first {
			res = r
			first = false
		} else {
			res = mergeVal(a.g, r, res)
		}
	}
	if first {
		return x.zeroResults(c.Signature())
	}
	return res
}

func (x *Exec) builtin(fr *Frame, b *ssa.Builtin, c *ssa.CallCommon, args []Value, p token.Pos) Value {
	switch b.Name() {
	case "len":
		switch v := args[0].(type) {
		case VSlice:
			return VInt{x.sliceLen(v)}
		case VStr:
			var res *Term
			for k := len(v.alts) - 1; k >= 0; k-- {
				c := mkConst(64, uint64(len(v.alts[k].s)))
				if res == nil {
					res = c
				} else {
					res = mkIte(v.alts[k].g, c, res)
				}
			}
			return VInt{res}
		case VRef:
			if _, ok := c.Args[0].Type().Underlying().(*types.Map); ok {
				return VInt{x.mapLen(v)}
			}
			if pt, ok := c.Args[0].Type().Underlying().(*types.Pointer); ok {
				return VInt{mkConst(64, uint64(pt.Elem().Underlying().(*types.Array).Len()))}
			}
			return VInt{mkConst(64, 0)} // chan
		case VArray:
			return VInt{mkConst(64, uint64(len(v.e)))}
		case nil:
			// undefined operand: only on a path whose guard is unsatisfiable (see callFunction)
			x.warnings["len of an undefined value (infeasible path)"]++
			return VInt{mkConst(64, 0)}
		}
	case "cap":
		switch v := args[0].(type) {
		case VSlice:
			var res *Term
			for k := len(v.alts) - 1; k >= 0; k-- {
				c := mkConst(64, uint64(v.alts[k].cap))
				if res == nil {
					res = c
				} else {
					res = mkIte(v.alts[k].g, c, res)
				}
			}
			return VInt{res}
		case VArray:
			return VInt{mkConst(64, uint64(len(v.e)))}
		}
	case "append":
		return x.doAppend(fr, args[0], args[1], c.Args[0].Type(), p)
	case "copy":
		dst := args[0].(VSlice)
		var scells []Value
		var slen *Term
		switch s := args[1].(type) {
		case VSlice:
			scells, slen = x.sliceCells(s)
		case VStr:
			if len(s.alts) != 1 {
				notEncodable("copy from symbolic string")
			}
			for _, ch := range []byte(s.alts[0].s) {
				scells = append(scells, VInt{mkConst(8, uint64(ch))})
			}
			slen = mkConst(64, uint64(len(scells)))
		}
		dlen := x.sliceLen(dst)
		n := mkIte(mkCmp(OUlt, slen, dlen), slen, dlen)
		for _, a := range dst.alts {
			if a.obj == nil {
				continue
			}
			for k := 0; k < a.cap && k < len(scells); k++ {
				g := mkAnd(fr.cur, a.g, mkCmp(OUlt, mkConst(64, uint64(k)), n))
				if g.isFalse() {
					continue
				}
				a.obj.val = setPath(a.obj.val, appendPath(a.path, a.off+k), g, scells[k])
			}
		}
		return VInt{n}
	case "delete":
		x.mapDelete(fr, asRef(args[0]), args[1])
		return nil
	case "print", "println", "close":
		return nil
	case "recover":
		return nilIface()
	case "ssa:wrapnilchk":
		r := args[0].(VRef)
		for _, a := range r.alts {
			if a.obj == nil {
				x.panicIf(fr, a.g, "nil pointer dereference (wrapper)", p)
			}
		}
		return r
	case "min", "max":
		acc := args[0]
		for _, o := range args[1:] {
			switch av := acc.(type) {
			case VInt:
				_, signed := intWidth(c.Args[0].Type())
				op := OUlt
				if signed {
					op = OSlt
				}
				lt := mkCmp(op, av.t, o.(VInt).t)
				if b.Name() == "min" {
					acc = VInt{mkIte(lt, av.t, o.(VInt).t)}
				} else {
					acc = VInt{mkIte(lt, o.(VInt).t, av.t)}
				}
			default:
				notEncodable("min/max on %T", acc)
			}
		}
		return acc
	case "clear":
		if r, ok := args[0].(VRef); ok {
			for _, a := range r.alts {
				if a.obj == nil {
					continue
				}
				for _, ks := range a.obj.keys {
					e := a.obj.ents[ks]
					e.present = mkAnd(e.present, mkNot(mkAnd(fr.cur, a.g)))
				}
			}
			return nil
		}
	}
	notEncodable("builtin %s(%T) at %s", b.Name(), args[0], x.framePos(fr, p))
	return nil
}

var _ = fmt.Sprintf
