package main

// math/big.Int model (only what quantity parsing uses): an object holding the low 64 bits of the value and a flag
// "does not fit int64". NewInt / Mul / IsInt64 / Int64 are modelled exactly on that abstraction; any other method of
// big.Int is refused.

import (
	"go/token"
	"strings"

	"golang.org/x/tools/go/ssa"
)

func bigParts(x *Exec, fr *Frame, v Value, p token.Pos) (*Term, *Term) {
	c := x.load(fr, v.(VRef), p)
	s, ok := c.(VStruct)
	if !ok || len(s.f) != 2 {
		notEncodable("big.Int value not created by the modelled constructors")
	}
	return asInt(s.f[0]), asBool(s.f[1])
}

func init() {
	stubs["math/big.NewInt"] = func(x *Exec, fr *Frame, fn *ssa.Function, a []Value, p token.Pos) Value {
		o := x.newObj(KCell, nil, VStruct{[]Value{VInt{asInt(a[0])}, VBool{ts.False}}})
		return refTo(o)
	}
	stubs["(*math/big.Int).Mul"] = func(x *Exec, fr *Frame, fn *ssa.Function, a []Value, p token.Pos) Value {
		xv, xb := bigParts(x, fr, a[1], p)
		yv, yb := bigParts(x, fr, a[2], p)
		lo := mkBin(OMul, xv, yv)
		hi := mkMulHiS(xv, yv)
		neg := mkCmp(OSlt, lo, mkConst(64, 0))
		fits := mkOr(mkAnd(mkEq(hi, mkConst(64, 0)), mkNot(neg)), mkAnd(mkEq(hi, mkConstS(64, -1)), neg))
		x.store(fr, a[0].(VRef), VStruct{[]Value{VInt{lo}, VBool{mkOr(xb, yb, mkNot(fits))}}}, p)
		return a[0]
	}
	stubs["(*math/big.Int).IsInt64"] = func(x *Exec, fr *Frame, fn *ssa.Function, a []Value, p token.Pos) Value {
		_, b := bigParts(x, fr, a[0], p)
		return VBool{mkNot(b)}
	}
	stubs["(*math/big.Int).Int64"] = func(x *Exec, fr *Frame, fn *ssa.Function, a []Value, p token.Pos) Value {
		v, _ := bigParts(x, fr, a[0], p)
		return VInt{v}
	}
}

func refuseUnmodelledBig(name string) bool {
	return strings.HasPrefix(name, "(*math/big.Int).") || strings.HasPrefix(name, "(math/big.nat).")
}
