package main

import (
	"fmt"
	"go/constant"
	"go/token"
	"go/types"
	"sort"
	"strings"
	"time"

	"golang.org/x/tools/go/ssa"
)

type Obligation struct {
	Harness  string
	Kind     string // assert | panic | unwind | reach
	Label    string
	Pos      string
	guard    *Term
	cond     *Term
	nAssume  int
	known    []KnownRegion
	Verdict  string
	Reach    string
	TimeMS   int64
	SMTBytes int
	Model    map[string]uint64
	modelLits map[string]string
	reachLits map[string]string
	knownRes  map[string]QueryResult
}

type KnownRegion struct {
	ID     string
	region *Term
}

type InputVar struct {
	Name string
	Kind string // int64, uint64, int32, bool, choice, str
	t    *Term
	Alts []string // for str
	N    int
}

type encodeErr struct{ msg string }

func (e encodeErr) Error() string { return e.msg }

func notEncodable(format string, a ...interface{}) {
	panic(encodeErr{fmt.Sprintf(format, a...)})
}

type deferRec struct {
	g    *Term
	call *ssa.CallCommon
	fnv  Value
	args []Value
	recv Value // for invoke
}

type retRec struct {
	g *Term
	v Value
}

type Frame struct {
	fn      *ssa.Function
	env     map[ssa.Value]Value
	entry   *Term
	edge    map[[2]int]*Term
	defers  []deferRec
	rets    []retRec
	hdr     map[*ssa.BasicBlock]*Term
	cur     *Term
	block   *ssa.BasicBlock
	skip    *Term // range-skip guard produced by a Next in this block
	blockDead bool
	caller  *Frame
	callPos token.Pos
}

type Exec struct {
	prog       *ssa.Program
	hpkg       *ssa.Package
	nobj       int
	globals    map[*ssa.Global]*Obj
	initDone   map[*ssa.Package]bool
	assumes    []*Term
	rangeAss   []*Term
	dead       *Term
	obls       []*Obligation
	inputs     []*InputVar
	inputByNm  map[string]*InputVar
	depth      int
	unwind     int
	sliceBound int
	timers     []*Obj
	splitVars  []string
	assumeNoPanic bool
	skipStub   *ssa.Function
	deadline   time.Time
	harness    string
	funcs      map[string]int
	finfo      map[*ssa.Function]*FuncInfo
	concrete   map[string]uint64 // non-nil: concrete mode
	observes   []string
	spawned    map[string]int
	stubsUsed  map[string]int
	warnings   map[string]int
	pendKnown  []KnownRegion
	steps      int
	maxSteps   int
	freshN     int
	timeN      int
	nowTerms   []*Term
	curFrame   *Frame
	trace      bool
	uninitGlob map[string]bool
}

func newExec(prog *ssa.Program, hpkg *ssa.Package) *Exec {
	return &Exec{prog: prog, hpkg: hpkg, globals: map[*ssa.Global]*Obj{}, initDone: map[*ssa.Package]bool{},
		dead: ts.False, inputByNm: map[string]*InputVar{}, unwind: 12, sliceBound: 16, funcs: map[string]int{}, finfo: map[*ssa.Function]*FuncInfo{},
		spawned: map[string]int{}, stubsUsed: map[string]int{}, warnings: map[string]int{}, maxSteps: 40_000_000, uninitGlob: map[string]bool{}}
}

func (x *Exec) newObj(kind ObjKind, typ types.Type, val Value) *Obj {
	x.nobj++
	o := &Obj{id: x.nobj, kind: kind, typ: typ, val: val}
	if kind == KMap {
		o.ents = map[string]*MapEnt{}
	}
	return o
}

func (x *Exec) pos(p token.Pos) string {
	if !p.IsValid() {
		return "?"
	}
	ps := x.prog.Fset.Position(p)
	f := ps.Filename
	if i := strings.Index(f, "/pkg/"); i >= 0 {
		f = f[i+1:]
	}
	return fmt.Sprintf("%s:%d", f, ps.Line)
}

func (x *Exec) framePos(fr *Frame, p token.Pos) string {
	if p.IsValid() {
		return x.pos(p)
	}
	for f := fr; f != nil; f = f.caller {
		if f.callPos.IsValid() {
			return x.pos(f.callPos) + "(in " + fr.fn.Name() + ")"
		}
	}
	return "?(" + fr.fn.Name() + ")"
}

func (x *Exec) alive(g *Term) *Term { return mkAnd(g, mkNot(x.dead)) }

func (x *Exec) addObl(kind, label, pos string, g, c *Term) *Obligation {
	o := &Obligation{Harness: x.harness, Kind: kind, Label: label, Pos: pos, guard: x.alive(g), cond: c, nAssume: len(x.assumes)}
	x.obls = append(x.obls, o)
	return o
}

func (x *Exec) panicIf(fr *Frame, g *Term, kind string, p token.Pos) {
	g = mkAnd(fr.cur, g)
	if g.isFalse() {
		return
	}
	if g == fr.cur {
		fr.blockDead = true // the whole current path panics here
	}
	ag := x.alive(g)
	if ag.isFalse() {
		return
	}
	if x.assumeNoPanic {
		// implicit run-time checks are not obligations of this harness: a path that would panic is simply not
		// a path on which the assertions are reached (C13 owns panic-freedom); counted for the evidence
		x.warnings["implicit run-time checks assumed to hold (not obligations of this harness)"]++
		x.dead = mkOr(x.dead, g)
		return
	}
	pos := x.framePos(fr, p)
	x.addObl("panic", kind, pos, g, ts.False)
	x.dead = mkOr(x.dead, g)
}

// ---------- loops ----------

type Loop struct {
	header   *ssa.BasicBlock
	body     map[*ssa.BasicBlock]bool
	parent   *Loop
	children []*Loop
	order    []item
	exits    [][2]int
	backs    []*ssa.BasicBlock
	liveOut  []ssa.Value
}

type item struct {
	bb   *ssa.BasicBlock
	loop *Loop
}

type FuncInfo struct {
	root *Loop
}

func (x *Exec) info(fn *ssa.Function) *FuncInfo {
	if fi, ok := x.finfo[fn]; ok {
		return fi
	}
	fi := &FuncInfo{}
	root := &Loop{header: fn.Blocks[0], body: map[*ssa.BasicBlock]bool{}}
	reach := map[*ssa.BasicBlock]bool{}
	var dfs func(b *ssa.BasicBlock)
	dfs = func(b *ssa.BasicBlock) {
		if reach[b] {
			return
		}
		reach[b] = true
		for _, s := range b.Succs {
			dfs(s)
		}
	}
	dfs(fn.Blocks[0])
	for b := range reach {
		root.body[b] = true
	}
	// natural loops
	loops := map[*ssa.BasicBlock]*Loop{}
	for _, u := range fn.Blocks {
		if !reach[u] {
			continue
		}
		for _, h := range u.Succs {
			if h.Dominates(u) {
				l := loops[h]
				if l == nil {
					l = &Loop{header: h, body: map[*ssa.BasicBlock]bool{h: true}}
					loops[h] = l
				}
				l.backs = append(l.backs, u)
				// collect body
				stack := []*ssa.BasicBlock{u}
				for len(stack) > 0 {
					n := stack[len(stack)-1]
					stack = stack[:len(stack)-1]
					if l.body[n] {
						continue
					}
					l.body[n] = true
					for _, p := range n.Preds {
						if reach[p] {
							stack = append(stack, p)
						}
					}
				}
			}
		}
	}
	// nesting: parent = smallest loop strictly containing header
	var all []*Loop
	for _, l := range loops {
		all = append(all, l)
	}
	sort.Slice(all, func(i, j int) bool { return all[i].header.Index < all[j].header.Index })
	for _, l := range all {
		var best *Loop
		for _, m := range all {
			if m != l && m.body[l.header] && len(m.body) > len(l.body) {
				if best == nil || len(m.body) < len(best.body) {
					best = m
				}
			}
		}
		if best == nil {
			best = root
		}
		l.parent = best
		best.children = append(best.children, l)
	}
	all = append(all, root)
	for _, l := range all {
		x.orderLoop(fn, l)
	}
	fi.root = root
	x.finfo[fn] = fi
	return fi
}

func (x *Exec) orderLoop(fn *ssa.Function, l *Loop) {
	// item of a block: itself or the child loop containing it
	childOf := map[*ssa.BasicBlock]*Loop{}
	for _, c := range l.children {
		for b := range c.body {
			childOf[b] = c
		}
	}
	type key struct {
		bb   *ssa.BasicBlock
		loop *Loop
	}
	itemOf := func(b *ssa.BasicBlock) key {
		if c := childOf[b]; c != nil {
			return key{nil, c}
		}
		return key{b, nil}
	}
	indeg := map[key]int{}
	succs := map[key][]key{}
	var blocks []*ssa.BasicBlock
	for b := range l.body {
		blocks = append(blocks, b)
	}
	sort.Slice(blocks, func(i, j int) bool { return blocks[i].Index < blocks[j].Index })
	for _, b := range blocks {
		k := itemOf(b)
		if _, ok := indeg[k]; !ok {
			indeg[k] = 0
		}
	}
	seenEdge := map[[2]key]bool{}
	for _, u := range blocks {
		for _, v := range u.Succs {
			if !l.body[v] {
				l.exits = append(l.exits, [2]int{u.Index, v.Index})
				continue
			}
			if v == l.header {
				continue // back edge of this loop
			}
			ku, kv := itemOf(u), itemOf(v)
			if ku == kv {
				continue
			}
			if seenEdge[[2]key{ku, kv}] {
				continue
			}
			seenEdge[[2]key{ku, kv}] = true
			succs[ku] = append(succs[ku], kv)
			indeg[kv]++
		}
	}
	idx := func(k key) int {
		if k.bb != nil {
			return k.bb.Index
		}
		return k.loop.header.Index
	}
	var ready []key
	for k, d := range indeg {
		if d == 0 {
			ready = append(ready, k)
		}
	}
	n := 0
	for len(ready) > 0 {
		sort.Slice(ready, func(i, j int) bool { return idx(ready[i]) < idx(ready[j]) })
		k := ready[0]
		ready = ready[1:]
		l.order = append(l.order, item{k.bb, k.loop})
		n++
		for _, s := range succs[k] {
			indeg[s]--
			if indeg[s] == 0 {
				ready = append(ready, s)
			}
		}
	}
	if n != len(indeg) {
		notEncodable("irreducible control flow in %s", fn)
	}
	if l.parent != nil || l.header != fn.Blocks[0] || true {
		// live-out registers: defined in body, referenced outside
		for _, b := range blocks {
			for _, ins := range b.Instrs {
				v, ok := ins.(ssa.Value)
				if !ok {
					continue
				}
				refs := v.Referrers()
				if refs == nil {
					continue
				}
				for _, r := range *refs {
					if !l.body[r.Block()] {
						l.liveOut = append(l.liveOut, v)
						break
					}
					// a phi in the header of this loop also observes across iterations, handled separately
				}
			}
		}
	}
}

// ---------- function execution ----------

func (x *Exec) callFunction(caller *Frame, fn *ssa.Function, args []Value, binds []Value, g *Term, p token.Pos) Value {
	if g.isFalse() {
		return x.zeroResults(fn.Signature)
	}
	name := fn.String()
	if fn.Signature.Recv() != nil && len(args) > 0 && args[0] == nil {
		// the receiver is an undefined value: it was read from a slice cell beyond the written length or from a map
		// entry that is absent on this path, i.e. the path guard is unsatisfiable although not syntactically false.
		// Executing the body would chase undefined fields for ever (recursive methods).
		x.warnings["method call on an undefined receiver skipped (infeasible path)"]++
		return x.zeroResults(fn.Signature)
	}
	if fn.Synthetic == "package initializer" && caller != nil && caller.fn != nil && caller.fn.Synthetic == "package initializer" {
		// dependency initialisers are run lazily, on first access to one of their globals
		return nil
	}
	skip := x.skipStub == fn
	x.skipStub = nil
	if st := x.findStub(fn, name); st != nil && !skip {
		x.stubsUsed[name]++
		fr := caller
		save := fr.cur
		fr.cur = g
		stubGuard = g
		r := st(x, fr, fn, args, p)
		fr.cur = save
		return r
	}
	if fn.Blocks == nil {
		notEncodable("call to function without body: %s at %s", name, x.framePos(caller, p))
	}
	if refuseUnmodelledBig(name) {
		notEncodable("math/big method without a model: %s at %s", name, x.framePos(caller, p))
	}
	if refuseUnmodelledTime(name) {
		notEncodable("time.Time method without a model: %s at %s", name, x.framePos(caller, p))
	}
	x.depth++
	if x.depth > 80 {
		chain := ""
		for f, n := caller, 0; f != nil && n < 100; f, n = f.caller, n+1 {
			chain += " <- " + f.fn.Name()
		}
		recv := ""
		if len(args) > 0 {
			recv = " first argument " + describe(args[0])
		}
		notEncodable("call depth exceeded at %s%s%s", name, recv, chain)
	}
	x.funcs[name]++
	fr := &Frame{fn: fn, env: map[ssa.Value]Value{}, entry: g, edge: map[[2]int]*Term{}, hdr: map[*ssa.BasicBlock]*Term{}, caller: caller, callPos: p}
	for i, prm := range fn.Params {
		if i < len(args) {
			fr.env[prm] = args[i]
		}
	}
	for i, fv := range fn.FreeVars {
		fr.env[fv] = binds[i]
	}
	if x.trace || traceCalls {
		fmt.Printf("%*scall %s\n", x.depth, "", name)
	}
	fi := x.info(fn)
	x.execItems(fr, fi.root)
	x.depth--
	// merge returns
	var res Value
	first := true
	for i := len(fr.rets) - 1; i >= 0; i-- {
		r := fr.rets[i]
		if first {
			res = r.v
			first = false
		} else {
			res = mergeVal(r.g, r.v, res)
		}
	}
	if first {
		return x.zeroResults(fn.Signature)
	}
	return res
}

// callFunctionNoStub runs the real body of a function that has a conditional stub
func (x *Exec) callFunctionNoStub(fr *Frame, fn *ssa.Function, args []Value, p token.Pos) Value {
	x.skipStub = fn
	return x.callFunction(fr, fn, args, nil, fr.cur, p)
}

func (x *Exec) zeroResults(sig *types.Signature) Value {
	switch sig.Results().Len() {
	case 0:
		return nil
	case 1:
		return zeroValue(sig.Results().At(0).Type())
	}
	return zeroValue(sig.Results())
}

func (x *Exec) execItems(fr *Frame, l *Loop) {
	for _, it := range l.order {
		if it.bb != nil {
			x.execBlock(fr, it.bb, l)
		} else {
			x.execLoop(fr, it.loop)
		}
	}
}

func (x *Exec) edgeG(fr *Frame, from, to int) *Term {
	if g, ok := fr.edge[[2]int{from, to}]; ok {
		return g
	}
	return ts.False
}

func (x *Exec) execLoop(fr *Frame, l *Loop) {
	h := l.header
	inBody := func(b *ssa.BasicBlock) bool { return l.body[b] }
	// initial guard and phi values from outside preds
	hg := ts.False
	for _, p := range h.Preds {
		if !inBody(p) {
			hg = mkOr(hg, x.edgeG(fr, p.Index, h.Index))
		}
	}
	var phis []*ssa.Phi
	for _, ins := range h.Instrs {
		if ph, ok := ins.(*ssa.Phi); ok {
			phis = append(phis, ph)
		} else {
			break
		}
	}
	phiVals := make([]Value, len(phis))
	for i, ph := range phis {
		var v Value
		first := true
		for j, p := range h.Preds {
			if inBody(p) {
				continue
			}
			eg := x.edgeG(fr, p.Index, h.Index)
			if eg.isFalse() {
				continue
			}
			pv := x.val(fr, ph.Edges[j])
			if first {
				v = pv
				first = false
			} else {
				v = mergeVal(eg, pv, v)
			}
		}
		phiVals[i] = v
	}
	exitAcc := map[[2]int]*Term{}
	for _, e := range l.exits {
		exitAcc[e] = ts.False
	}
	exitVals := map[ssa.Value]Value{}
	bound := x.unwind
	outerSkip := fr.skip
	entryG := hg
	for iter := 0; ; iter++ {
		if hg.isFalse() || x.alive(hg).isFalse() {
			break
		}
		// a loop whose continuation never depended on a symbolic condition (its guard is still the
		// entry guard) is a concrete loop: it terminates on its own and is not subject to the bound
		if iter >= bound && (hg != entryG || iter >= 20000) {
			x.addObl("unwind", fmt.Sprintf("loop at %s needs more than %d iterations", x.framePos(fr, h.Instrs[0].Pos()), bound), x.framePos(fr, h.Instrs[0].Pos()), hg, ts.False)
			// treat as dead beyond the bound so later obligations are not polluted
			x.dead = mkOr(x.dead, hg)
			break
		}
		fr.hdr[h] = hg
		for i, ph := range phis {
			fr.env[ph] = phiVals[i]
		}
		fr.skip = nil
		x.execItems(fr, l)
		skip := fr.skip
		fr.skip = nil
		exitThis := ts.False
		for _, e := range l.exits {
			g := x.edgeG(fr, e[0], e[1])
			exitAcc[e] = mkOr(exitAcc[e], g)
			exitThis = mkOr(exitThis, g)
		}
		if !exitThis.isFalse() {
			for _, r := range l.liveOut {
				cur, ok := fr.env[r]
				if !ok {
					continue
				}
				if old, ok2 := exitVals[r]; ok2 {
					exitVals[r] = mergeVal(exitThis, cur, old)
				} else {
					exitVals[r] = cur
				}
			}
		}
		// next iteration
		ng := ts.False
		for _, p := range h.Preds {
			if inBody(p) {
				ng = mkOr(ng, x.edgeG(fr, p.Index, h.Index))
			}
		}
		next := make([]Value, len(phis))
		for i, ph := range phis {
			var v Value
			first := true
			for j, p := range h.Preds {
				if !inBody(p) {
					continue
				}
				eg := x.edgeG(fr, p.Index, h.Index)
				if eg.isFalse() {
					continue
				}
				pv := x.val(fr, ph.Edges[j])
				if first {
					v = pv
					first = false
				} else {
					v = mergeVal(eg, pv, v)
				}
			}
			if skip != nil && !skip.isFalse() {
				if first {
					v = fr.env[ph]
				} else {
					v = mergeVal(skip, fr.env[ph], v)
				}
			}
			next[i] = v
		}
		if skip != nil {
			ng = mkOr(ng, skip)
		}
		phiVals = next
		hg = ng
	}
	delete(fr.hdr, h)
	fr.skip = outerSkip
	for _, e := range l.exits {
		fr.edge[e] = exitAcc[e]
	}
	for r, v := range exitVals {
		fr.env[r] = v
	}
}

func (x *Exec) execBlock(fr *Frame, b *ssa.BasicBlock, l *Loop) {
	var g *Term
	isHdr := false
	if hg, ok := fr.hdr[b]; ok && b == l.header {
		g = hg
		isHdr = true
	} else if b.Index == 0 {
		g = fr.entry
	} else {
		g = ts.False
		for _, p := range b.Preds {
			g = mkOr(g, x.edgeG(fr, p.Index, b.Index))
		}
	}
	if g.isFalse() || x.alive(g).isFalse() {
		for _, s := range b.Succs {
			fr.edge[[2]int{b.Index, s.Index}] = ts.False
		}
		return
	}
	fr.cur = g
	fr.block = b
	// phis (parallel)
	if !isHdr {
		var pv []Value
		var phs []*ssa.Phi
		for _, ins := range b.Instrs {
			ph, ok := ins.(*ssa.Phi)
			if !ok {
				break
			}
			var v Value
			first := true
			for j, p := range b.Preds {
				eg := x.edgeG(fr, p.Index, b.Index)
				if eg.isFalse() {
					continue
				}
				ev := x.val(fr, ph.Edges[j])
				if first {
					v = ev
					first = false
				} else {
					v = mergeVal(eg, ev, v)
				}
			}
			phs = append(phs, ph)
			pv = append(pv, v)
		}
		for i, ph := range phs {
			fr.env[ph] = pv[i]
		}
	}
	for _, ins := range b.Instrs {
		if _, ok := ins.(*ssa.Phi); ok {
			continue
		}
		x.steps++
		if x.steps > x.maxSteps {
			notEncodable("step budget exceeded")
		}
		if x.steps%2000 == 0 && !x.deadline.IsZero() && time.Now().After(x.deadline) {
			notEncodable("symbolic execution exceeded its time budget (state explosion) in %s", fr.fn)
		}
		fr.blockDead = false
		x.execInstr(fr, ins)
		fr.cur = g
		fr.block = b
		if fr.blockDead {
			// every path through this block panicked at this instruction: the rest of the block (and what it
			// dominates) is unreachable; later instructions would only see undefined values
			fr.blockDead = false
			if _, isRet := ins.(*ssa.Return); !isRet {
				for _, s := range b.Succs {
					fr.edge[[2]int{b.Index, s.Index}] = ts.False
				}
				return
			}
		}
	}
}

// ---------- values ----------

func (x *Exec) val(fr *Frame, v ssa.Value) Value {
	switch c := v.(type) {
	case *ssa.Const:
		return x.constVal(c)
	case *ssa.Global:
		return refTo(x.globalObj(c))
	case *ssa.Function:
		return VFunc{[]FuncAlt{{g: ts.True, fn: c}}}
	case *ssa.Builtin:
		return VOpaque{c.Type()}
	}
	r, ok := fr.env[v]
	if !ok {
		return nil
	}
	return r
}

func (x *Exec) constVal(c *ssa.Const) Value {
	t := c.Type()
	if c.Value == nil {
		return zeroValue(t)
	}
	switch u := t.Underlying().(type) {
	case *types.Basic:
		switch {
		case u.Info()&types.IsBoolean != 0:
			return VBool{mkBool(constant.BoolVal(c.Value))}
		case u.Info()&types.IsString != 0:
			return concreteStr(constant.StringVal(c.Value))
		case u.Info()&types.IsFloat != 0:
			f, _ := constant.Float64Val(c.Value)
			return VFloat{mkFConst(f)}
		case u.Info()&types.IsInteger != 0:
			w, signed := intWidth(t)
			if signed {
				return VInt{mkConstS(w, c.Int64())}
			}
			return VInt{mkConst(w, c.Uint64())}
		}
	}
	notEncodable("constant of type %s", t)
	return nil
}

func (x *Exec) globalObj(g *ssa.Global) *Obj {
	if o, ok := x.globals[g]; ok {
		return o
	}
	elem := g.Type().(*types.Pointer).Elem()
	o := x.newObj(KCell, elem, zeroValue(elem))
	o.name = g.String()
	x.globals[g] = o
	if g.Pkg != nil {
		x.ensureInit(g.Pkg, g)
	}
	return o
}

func initAllowed(path string) bool {
	for _, p := range []string{"github.com/apache/yunikorn-core/", "github.com/looplab/fsm", "github.com/google/btree", "github.com/apache/yunikorn-scheduler-interface/lib/go/common"} {
		if strings.HasPrefix(path, p) {
			return true
		}
	}
	return false
}

func (x *Exec) ensureInit(pkg *ssa.Package, why *ssa.Global) {
	if x.initDone[pkg] {
		return
	}
	x.initDone[pkg] = true
	path := pkg.Pkg.Path()
	if isStubPkg(path) {
		return
	}
	if !initAllowed(path) {
		x.uninitGlob[why.String()] = true
		return
	}
	initFn := pkg.Func("init")
	if initFn == nil || initFn.Blocks == nil {
		return
	}
	// run concretely (no symbolic inputs exist in init), outside the harness guard
	saveDead, saveDepth := x.dead, x.depth
	x.dead = ts.False
	fr := &Frame{env: map[ssa.Value]Value{}, cur: ts.True}
	x.callFunction(fr, initFn, nil, nil, ts.True, token.NoPos)
	x.dead, x.depth = saveDead, saveDepth
}

func asInt(v Value) *Term {
	switch t := v.(type) {
	case VInt:
		return t.t
	}
	panic(fmt.Sprintf("asInt: %T", v))
}

func asBool(v Value) *Term {
	switch t := v.(type) {
	case VBool:
		return t.t
	case nil:
		return ts.False // undefined: only on paths that all panicked
	}
	panic(fmt.Sprintf("asBool: %T", v))
}

// ---------- memory ----------

func (x *Exec) load(fr *Frame, r VRef, p token.Pos) Value {
	var res Value
	first := true
	for i := len(r.alts) - 1; i >= 0; i-- {
		a := r.alts[i]
		if a.obj == nil {
			x.panicIf(fr, a.g, "nil pointer dereference", p)
			continue
		}
		if a.obj.kind != KCell {
			notEncodable("load from non-cell object %s", a.obj)
		}
		v := getPath(a.obj.val, a.path)
		if first {
			res = v
			first = false
		} else {
			res = mergeVal(a.g, v, res)
		}
	}
	return res
}

func (x *Exec) store(fr *Frame, r VRef, v Value, p token.Pos) {
	for _, a := range r.alts {
		if a.obj == nil {
			x.panicIf(fr, a.g, "nil pointer dereference (store)", p)
			continue
		}
		g := mkAnd(fr.cur, a.g)
		if g.isFalse() {
			continue
		}
		a.obj.val = setPath(a.obj.val, a.path, g, v)
	}
}

func appendPath(p []int, i int) []int {
	n := make([]int, len(p)+1)
	copy(n, p)
	n[len(p)] = i
	return n
}

// ---------- slices ----------

func (x *Exec) sliceLen(s VSlice) *Term {
	var res *Term
	for i := len(s.alts) - 1; i >= 0; i-- {
		a := s.alts[i]
		if res == nil {
			res = a.len
		} else {
			res = mkIte(a.g, a.len, res)
		}
	}
	return res
}

func (x *Exec) sliceMaxLen(s VSlice) int {
	m := 0
	for _, a := range s.alts {
		n := a.cap
		if a.len.isConst() {
			n = int(a.len.sval())
		} else if a.len.hi >= 0 && a.len.hi < int64(n) {
			n = int(a.len.hi)
		}
		if n > m {
			m = n
		}
	}
	return m
}

// sliceElemRef returns a reference to element idx of the slice (fan-out over cells).
func (x *Exec) sliceElemRef(fr *Frame, s VSlice, idx *Term, p token.Pos) VRef {
	idx = mkResize(idx, 64, true)
	var alts []RefAlt
	for _, a := range s.alts {
		// bounds
		inb := mkCmp(OUlt, idx, a.len)
		x.panicIf(fr, mkAnd(a.g, mkNot(inb)), "index out of range", p)
		if a.obj == nil {
			continue
		}
		if idx.isConst() {
			i := int(idx.sval())
			if i >= 0 && i < a.cap {
				alts = append(alts, RefAlt{a.g, a.obj, appendPath(a.path, a.off+i)})
			}
			continue
		}
		for i := 0; i < a.cap; i++ {
			g := mkAnd(a.g, mkEq(idx, mkConst(64, uint64(i))))
			if g.isFalse() {
				continue
			}
			alts = append(alts, RefAlt{g, a.obj, appendPath(a.path, a.off+i)})
		}
	}
	if len(alts) == 0 {
		return VRef{[]RefAlt{{ts.False, nil, nil}}}
	}
	return normRef(alts)
}

// sliceCells gives a normalized view: cells[p] (merged over alternatives) for p < maxLen.
func (x *Exec) sliceCells(s VSlice) ([]Value, *Term) {
	n := x.sliceMaxLen(s)
	cells := make([]Value, n)
	for p := 0; p < n; p++ {
		var v Value
		first := true
		for i := len(s.alts) - 1; i >= 0; i-- {
			a := s.alts[i]
			if a.obj == nil || p >= a.cap {
				continue
			}
			cv := getPath(a.obj.val, appendPath(a.path, a.off+p))
			if first {
				v = cv
				first = false
			} else {
				v = mergeVal(a.g, cv, v)
			}
		}
		cells[p] = v
	}
	return cells, x.sliceLen(s)
}

func (x *Exec) newArray(elem types.Type, n int) *Obj {
	e := make([]Value, n)
	for i := range e {
		e[i] = zeroValue(elem)
	}
	return x.newObj(KCell, types.NewArray(elem, int64(n)), VArray{e})
}

func (x *Exec) doAppend(fr *Frame, sv, tv Value, typ types.Type, p token.Pos) Value {
	elem := typ.Underlying().(*types.Slice).Elem()
	s := sv.(VSlice)
	var tcells []Value
	var tlen *Term
	switch t := tv.(type) {
	case VSlice:
		tcells, tlen = x.sliceCells(t)
	case VStr:
		// append([]byte, string...)
		if len(t.alts) != 1 {
			notEncodable("append of symbolic string")
		}
		for _, c := range []byte(t.alts[0].s) {
			tcells = append(tcells, VInt{mkConst(8, uint64(c))})
		}
		tlen = mkConst(64, uint64(len(tcells)))
	default:
		notEncodable("append arg %T", tv)
	}
	if len(tcells) == 0 || (tlen.isConst() && tlen.c == 0) {
		return s
	}
	// in-place fast path
	if len(s.alts) == 1 && s.alts[0].obj != nil && s.alts[0].len.isConst() && tlen.isConst() {
		a := s.alts[0]
		l, n := int(a.len.sval()), int(tlen.sval())
		if l+n <= a.cap {
			for i := 0; i < n; i++ {
				a.obj.val = setPath(a.obj.val, appendPath(a.path, a.off+l+i), fr.cur, tcells[i])
			}
			return VSlice{[]SliceAlt{{g: ts.True, obj: a.obj, path: a.path, off: a.off, len: mkConst(64, uint64(l+n)), cap: a.cap}}}
		}
	}
	// in-place path for a symbolic length: if even the largest possible length fits the capacity, the elements
	// are written with guarded stores at every possible position and no new backing array is created; this keeps
	// a slice that is appended to under many different guards a single object (same semantics as Go when the
	// capacity suffices)
	// a union of "nil" and exactly one backing array (the slice was first appended to under a guard): the array
	// does not exist in the worlds of the nil alternative, so it can serve them too with length 0
	if len(s.alts) > 1 {
		var one *SliceAlt
		cnt := 0
		for i := range s.alts {
			if s.alts[i].obj != nil {
				one = &s.alts[i]
				cnt++
			}
		}
		if cnt == 1 {
			s = VSlice{[]SliceAlt{{g: ts.True, obj: one.obj, path: one.path, off: one.off, len: mkIte(one.g, one.len, mkConst(64, 0)), cap: one.cap}}}
		}
	}
	if len(s.alts) == 1 && s.alts[0].obj != nil {
		a := s.alts[0]
		lo, hi := a.len.lo, a.len.hi
		if a.len.isConst() {
			lo, hi = a.len.sval(), a.len.sval()
		}
		if lo >= 0 && hi >= lo && hi-lo <= 300 && int(hi)+len(tcells) <= a.cap {
			for pos := lo; pos <= hi; pos++ {
				at := mkEq(a.len, mkConst(64, uint64(pos)))
				if at.isFalse() {
					continue
				}
				for j := 0; j < len(tcells); j++ {
					g := mkAnd(fr.cur, at, mkCmp(OUlt, mkConst(64, uint64(j)), tlen))
					if g.isFalse() {
						continue
					}
					a.obj.val = setPath(a.obj.val, appendPath(a.path, a.off+int(pos)+j), g, tcells[j])
				}
			}
			return VSlice{[]SliceAlt{{g: ts.True, obj: a.obj, path: a.path, off: a.off, len: mkBin(OAdd, a.len, tlen), cap: a.cap}}}
		}
	}
	scells, slen := x.sliceCells(s)
	ncap := len(scells) + len(tcells)
	// generous capacity so that later appends (often under many different guards) stay in place and the slice
	// remains one object; cap() itself is not observable in the code under test
	ncap *= 2
	if ncap < 256 {
		ncap = 256
	}
	arr := x.newArray(elem, ncap)
	e := arr.val.(VArray).e
	for pos := 0; pos < len(scells)+len(tcells) && pos < ncap; pos++ {
		var v Value
		// value if pos < slen: scells[pos]; else tcells[pos - slen]
		var tv2 Value
		if slen.isConst() {
			j := pos - int(slen.sval())
			if j >= 0 && j < len(tcells) {
				tv2 = tcells[j]
			}
		} else {
			first := true
			for j := 0; j < len(tcells); j++ {
				// pos - slen == j  ⇔ slen == pos - j
				if pos-j < 0 {
					continue
				}
				c := mkEq(slen, mkConst(64, uint64(pos-j)))
				if c.isFalse() {
					continue
				}
				if first {
					tv2 = tcells[j]
					first = false
				} else {
					tv2 = mergeVal(c, tcells[j], tv2)
				}
			}
		}
		if pos < len(scells) {
			inS := mkCmp(OUlt, mkConst(64, uint64(pos)), slen)
			if tv2 == nil {
				v = scells[pos]
			} else {
				v = mergeVal(inS, scells[pos], tv2)
			}
		} else {
			v = tv2
		}
		if v != nil {
			e[pos] = v
		}
	}
	return VSlice{[]SliceAlt{{g: ts.True, obj: arr, off: 0, len: mkBin(OAdd, slen, tlen), cap: ncap}}}
}

// ---------- maps ----------

func (x *Exec) mapLookup(fr *Frame, m VRef, key Value, elem types.Type, p token.Pos) (Value, *Term) {
	kalts, ok := expandKey(key)
	var res Value = zeroValue(elem)
	found := ts.False
	for _, ma := range m.alts {
		if ma.obj == nil {
			continue
		}
		if ma.obj.kind != KMap {
			notEncodable("lookup in non-map %s", ma.obj)
		}
		if !ok {
			// symbolic key of unsupported form: compare against every stored key
			for _, ks := range ma.obj.keys {
				e := ma.obj.ents[ks]
				eq := x.valEq(key, e.key)
				g := mkAnd(ma.g, eq, e.present)
				if g.isFalse() {
					continue
				}
				res = mergeVal(g, e.val, res)
				found = mkOr(found, g)
			}
			continue
		}
		for _, ka := range kalts {
			e := ma.obj.ents[ka.s]
			if e == nil {
				continue
			}
			g := mkAnd(ma.g, ka.g, e.present)
			if g.isFalse() {
				continue
			}
			res = mergeVal(g, e.val, res)
			found = mkOr(found, g)
		}
	}
	return res, found
}

func (x *Exec) mapUpdate(fr *Frame, m VRef, key, val Value, p token.Pos) {
	if key == nil {
		// the key is undefined: every path reaching this point already panicked (e.g. method call on nil)
		return
	}
	kalts, ok := expandKey(key)
	if !ok {
		notEncodable("map update with symbolic key %s at %s", describe(key), x.framePos(fr, p))
	}
	for _, ma := range m.alts {
		if ma.obj == nil {
			x.panicIf(fr, ma.g, "assignment to entry in nil map", p)
			continue
		}
		for _, ka := range kalts {
			g := mkAnd(fr.cur, ma.g, ka.g)
			if g.isFalse() {
				continue
			}
			e := ma.obj.ents[ka.s]
			if e == nil {
				e = &MapEnt{key: ka.v, present: ts.False, val: zeroValue(ma.obj.typ.Underlying().(*types.Map).Elem())}
				ma.obj.ents[ka.s] = e
				ma.obj.keys = append(ma.obj.keys, ka.s)
			}
			e.present = mkOr(e.present, g)
			e.val = mergeVal(g, val, e.val)
		}
	}
}

func (x *Exec) mapDelete(fr *Frame, m VRef, key Value) {
	kalts, ok := expandKey(key)
	for _, ma := range m.alts {
		if ma.obj == nil {
			continue
		}
		if !ok {
			for _, ks := range ma.obj.keys {
				e := ma.obj.ents[ks]
				g := mkAnd(fr.cur, ma.g, x.valEq(key, e.key))
				e.present = mkAnd(e.present, mkNot(g))
			}
			continue
		}
		for _, ka := range kalts {
			e := ma.obj.ents[ka.s]
			if e == nil {
				continue
			}
			g := mkAnd(fr.cur, ma.g, ka.g)
			e.present = mkAnd(e.present, mkNot(g))
		}
	}
}

func (x *Exec) mapLen(m VRef) *Term {
	res := mkConst(64, 0)
	for _, ma := range m.alts {
		if ma.obj == nil {
			continue
		}
		n := mkConst(64, 0)
		for _, ks := range ma.obj.keys {
			e := ma.obj.ents[ks]
			n = mkBin(OAdd, n, mkIte(e.present, mkConst(64, 1), mkConst(64, 0)))
		}
		res = mkIte(ma.g, n, res)
	}
	return res
}

// ---------- equality ----------

func (x *Exec) valEq(a, b Value) *Term {
	switch p := a.(type) {
	case VInt:
		return mkEq(p.t, b.(VInt).t)
	case VBool:
		return mkEq(p.t, b.(VBool).t)
	case VFloat:
		return mkFCmp(OFEq, p.t, b.(VFloat).t)
	case VStr:
		q := b.(VStr)
		r := ts.False
		for _, x1 := range p.alts {
			for _, y1 := range q.alts {
				if x1.s == y1.s {
					r = mkOr(r, mkAnd(x1.g, y1.g))
				}
			}
		}
		return r
	case VRef:
		q, ok := b.(VRef)
		if !ok {
			notEncodable("compare ref with %T", b)
		}
		r := ts.False
		for _, x1 := range p.alts {
			for _, y1 := range q.alts {
				if x1.obj == y1.obj && pathEq(x1.path, y1.path) {
					r = mkOr(r, mkAnd(x1.g, y1.g))
				}
			}
		}
		return r
	case VStruct:
		q := b.(VStruct)
		r := ts.True
		for i := range p.f {
			r = mkAnd(r, x.valEq(p.f[i], q.f[i]))
		}
		return r
	case VArray:
		q := b.(VArray)
		r := ts.True
		for i := range p.e {
			r = mkAnd(r, x.valEq(p.e[i], q.e[i]))
		}
		return r
	case VIface:
		q := b.(VIface)
		r := ts.False
		for _, x1 := range p.alts {
			for _, y1 := range q.alts {
				if x1.typ == nil && y1.typ == nil {
					r = mkOr(r, mkAnd(x1.g, y1.g))
				} else if x1.typ != nil && y1.typ != nil && types.Identical(x1.typ, y1.typ) {
					r = mkOr(r, mkAnd(x1.g, y1.g, x.valEq(x1.val, y1.val)))
				}
			}
		}
		return r
	case VSlice:
		// only comparison with nil is legal
		q := b.(VSlice)
		r := ts.False
		for _, x1 := range p.alts {
			for _, y1 := range q.alts {
				if x1.obj == nil && y1.obj == nil {
					r = mkOr(r, mkAnd(x1.g, y1.g))
				}
			}
		}
		return r
	case VFunc:
		q := b.(VFunc)
		r := ts.False
		for _, x1 := range p.alts {
			for _, y1 := range q.alts {
				if x1.fn == nil && y1.fn == nil && x1.native == nil && y1.native == nil {
					r = mkOr(r, mkAnd(x1.g, y1.g))
				}
			}
		}
		return r
	case VOpaque:
		return ts.True
	}
	notEncodable("valEq on %T", a)
	return nil
}
