package main

// Time model: a time.Time value is represented as {wall: 0, ext: nanoseconds since the Unix
// epoch, loc: nil}; the zero Time is ext == 0. Every time.Time method the code under test uses
// is modelled on that representation; any other method of time.Time is refused (NOT-ENCODABLE),
// so the real implementation is never run on the abstract representation.
// time.Now() returns a symbolic non-decreasing sequence of instants.

import (
	"fmt"
	"go/token"
	"strings"

	"golang.org/x/tools/go/ssa"
)

func timeVal(ns *Term) Value {
	return VStruct{[]Value{VInt{mkConst(64, 0)}, VInt{ns}, nilRef()}}
}

func timeNS(v Value) *Term {
	return v.(VStruct).f[1].(VInt).t
}

const nowBase = int64(1) << 60

func (x *Exec) nowTerm() *Term {
	k := len(x.nowTerms)
	var t *Term
	if k == 0 {
		t = x.input("time.now.0", "time", 64, nowBase, nowBase+(1<<50), true)
	} else {
		d := x.input(fmt.Sprintf("time.now.%d", k), "time", 64, 0, 1<<40, true)
		t = mkBin(OAdd, x.nowTerms[k-1], d)
	}
	if x.concrete != nil {
		// concrete re-execution: a fixed instant (natively the real clock is used; harnesses only
		// depend on differences they construct themselves)
		if k == 0 {
			t = mkConstS(64, nowBase)
		} else {
			t = x.nowTerms[k-1]
		}
	}
	x.nowTerms = append(x.nowTerms, t)
	return t
}

func init() {
	st := func(name string, f StubFn) { stubs[name] = f }
	st("time.Now", func(x *Exec, fr *Frame, fn *ssa.Function, a []Value, p token.Pos) Value {
		return timeVal(x.nowTerm())
	})
	st("time.Since", func(x *Exec, fr *Frame, fn *ssa.Function, a []Value, p token.Pos) Value {
		return VInt{mkBin(OSub, x.nowTerm(), timeNS(a[0]))}
	})
	st("time.Until", func(x *Exec, fr *Frame, fn *ssa.Function, a []Value, p token.Pos) Value {
		return VInt{mkBin(OSub, timeNS(a[0]), x.nowTerm())}
	})
	st("time.Unix", func(x *Exec, fr *Frame, fn *ssa.Function, a []Value, p token.Pos) Value {
		return timeVal(mkBin(OAdd, mkBin(OMul, asInt(a[0]), mkConst(64, 1000000000)), asInt(a[1])))
	})
	st("time.UnixMilli", func(x *Exec, fr *Frame, fn *ssa.Function, a []Value, p token.Pos) Value {
		return timeVal(mkBin(OMul, asInt(a[0]), mkConst(64, 1000000)))
	})
	st("(time.Time).Add", func(x *Exec, fr *Frame, fn *ssa.Function, a []Value, p token.Pos) Value {
		return timeVal(mkBin(OAdd, timeNS(a[0]), asInt(a[1])))
	})
	st("(time.Time).Sub", func(x *Exec, fr *Frame, fn *ssa.Function, a []Value, p token.Pos) Value {
		return VInt{mkBin(OSub, timeNS(a[0]), timeNS(a[1]))}
	})
	st("(time.Time).Before", func(x *Exec, fr *Frame, fn *ssa.Function, a []Value, p token.Pos) Value {
		return VBool{mkCmp(OSlt, timeNS(a[0]), timeNS(a[1]))}
	})
	st("(time.Time).After", func(x *Exec, fr *Frame, fn *ssa.Function, a []Value, p token.Pos) Value {
		return VBool{mkCmp(OSlt, timeNS(a[1]), timeNS(a[0]))}
	})
	st("(time.Time).Equal", func(x *Exec, fr *Frame, fn *ssa.Function, a []Value, p token.Pos) Value {
		return VBool{mkEq(timeNS(a[0]), timeNS(a[1]))}
	})
	st("(time.Time).Compare", func(x *Exec, fr *Frame, fn *ssa.Function, a []Value, p token.Pos) Value {
		lt := mkCmp(OSlt, timeNS(a[0]), timeNS(a[1]))
		gt := mkCmp(OSlt, timeNS(a[1]), timeNS(a[0]))
		return VInt{mkIte(lt, mkConstS(64, -1), mkIte(gt, mkConst(64, 1), mkConst(64, 0)))}
	})
	st("(time.Time).IsZero", func(x *Exec, fr *Frame, fn *ssa.Function, a []Value, p token.Pos) Value {
		return VBool{mkEq(timeNS(a[0]), mkConst(64, 0))}
	})
	st("(time.Time).UnixNano", func(x *Exec, fr *Frame, fn *ssa.Function, a []Value, p token.Pos) Value {
		return VInt{timeNS(a[0])}
	})
	st("(time.Time).Unix", func(x *Exec, fr *Frame, fn *ssa.Function, a []Value, p token.Pos) Value {
		return VInt{mkBin(OSDiv, timeNS(a[0]), mkConst(64, 1000000000))}
	})
	st("(time.Time).UnixMilli", func(x *Exec, fr *Frame, fn *ssa.Function, a []Value, p token.Pos) Value {
		return VInt{mkBin(OSDiv, timeNS(a[0]), mkConst(64, 1000000))}
	})
	for _, n := range []string{"(time.Time).String", "(time.Time).Format", "(time.Duration).String"} {
		st(n, func(x *Exec, fr *Frame, fn *ssa.Function, a []Value, p token.Pos) Value {
			return concreteStr("<time>")
		})
	}
	for _, n := range []string{"(time.Duration).Seconds", "(time.Duration).Minutes", "(time.Duration).Hours"} {
		st(n, func(x *Exec, fr *Frame, fn *ssa.Function, a []Value, p token.Pos) Value {
			x.warnings["float duration treated as opaque 0"]++
			return VFloat{mkFConst(0)}
		})
	}
	st("(time.Duration).Milliseconds", func(x *Exec, fr *Frame, fn *ssa.Function, a []Value, p token.Pos) Value {
		return VInt{mkBin(OSDiv, asInt(a[0]), mkConst(64, 1000000))}
	})
	st("(time.Duration).Nanoseconds", func(x *Exec, fr *Frame, fn *ssa.Function, a []Value, p token.Pos) Value {
		return VInt{asInt(a[0])}
	})
	st("time.Sleep", noopStub)
	// timers: opaque objects remembering their callback; fired only by harnesses calling the callback directly
	st("time.AfterFunc", func(x *Exec, fr *Frame, fn *ssa.Function, a []Value, p token.Pos) Value {
		et := fn.Signature.Results().At(0).Type().Underlying()
		_ = et
		o := x.newObj(KCell, nil, VOpaque{})
		o.timerFn = a[1]
		o.name = "timer"
		x.timers = append(x.timers, o)
		return refTo(o)
	})
	st("time.NewTimer", func(x *Exec, fr *Frame, fn *ssa.Function, a []Value, p token.Pos) Value {
		o := x.newObj(KCell, nil, VOpaque{})
		o.name = "timer"
		return refTo(o)
	})
	st("(*time.Timer).Stop", func(x *Exec, fr *Frame, fn *ssa.Function, a []Value, p token.Pos) Value {
		return VBool{ts.True}
	})
	st("(*time.Timer).Reset", func(x *Exec, fr *Frame, fn *ssa.Function, a []Value, p token.Pos) Value {
		return VBool{ts.True}
	})
}

// refuseUnmodelledTime: called for functions without stub; any other time.Time method must not run on the abstract representation
func refuseUnmodelledTime(name string) bool {
	return strings.HasPrefix(name, "(time.Time).") || strings.HasPrefix(name, "(*time.Time).")
}

// ---- sync/atomic as plain memory operations (sequential execution), context cancellation never observed ----

func init() {
	st := func(name string, f StubFn) { stubs[name] = f }
	for _, ty := range []string{"Int32", "Int64", "Uint32", "Uint64", "Uintptr", "Pointer"} {
		st("sync/atomic.Load"+ty, func(x *Exec, fr *Frame, fn *ssa.Function, a []Value, p token.Pos) Value {
			return x.load(fr, a[0].(VRef), p)
		})
		st("sync/atomic.Store"+ty, func(x *Exec, fr *Frame, fn *ssa.Function, a []Value, p token.Pos) Value {
			x.store(fr, a[0].(VRef), a[1], p)
			return nil
		})
		st("sync/atomic.Swap"+ty, func(x *Exec, fr *Frame, fn *ssa.Function, a []Value, p token.Pos) Value {
			old := x.load(fr, a[0].(VRef), p)
			x.store(fr, a[0].(VRef), a[1], p)
			return old
		})
		st("sync/atomic.CompareAndSwap"+ty, func(x *Exec, fr *Frame, fn *ssa.Function, a []Value, p token.Pos) Value {
			old := x.load(fr, a[0].(VRef), p)
			eq := x.valEq(old, a[1])
			save := fr.cur
			fr.cur = mkAnd(fr.cur, eq)
			x.store(fr, a[0].(VRef), a[2], p)
			fr.cur = save
			return VBool{eq}
		})
		if ty != "Pointer" {
			st("sync/atomic.Add"+ty, func(x *Exec, fr *Frame, fn *ssa.Function, a []Value, p token.Pos) Value {
				old := x.load(fr, a[0].(VRef), p)
				nv := VInt{mkBin(OAdd, asInt(old), asInt(a[1]))}
				x.store(fr, a[0].(VRef), nv, p)
				return nv
			})
		}
	}
	st("(*context.cancelCtx).Err", func(x *Exec, fr *Frame, fn *ssa.Function, a []Value, p token.Pos) Value { return nilIface() })
	st("(*context.cancelCtx).cancel", noopStub)
	st("(*context.cancelCtx).Done", func(x *Exec, fr *Frame, fn *ssa.Function, a []Value, p token.Pos) Value { return nilRef() })
	st("(*context.cancelCtx).propagateCancel", noopStub)
	st("context.Cause", func(x *Exec, fr *Frame, fn *ssa.Function, a []Value, p token.Pos) Value { return nilIface() })
}
