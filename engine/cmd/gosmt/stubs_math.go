package main

import (
	"go/token"
	"math"

	"golang.org/x/tools/go/ssa"
)

func asFloat(v Value) *Term { return v.(VFloat).t }

// exactFloatObl: the integer model of a float64 round trip is exact only below 2^53; unless the range analysis
// already shows it, "the value can reach 2^53 in magnitude" becomes an obligation that must be unsatisfiable
func (x *Exec) exactFloatObl(fr *Frame, y *Term, p token.Pos) {
	if y.lo > -(1<<53) && y.hi < (1<<53) {
		return
	}
	lim := mkConstS(y.w, 1<<53)
	big := mkOr(mkCmp(OSle, lim, y), mkCmp(OSle, y, mkNeg(lim)))
	x.addObl("unwind", "integer model of a float64 conversion needs |value| < 2^53", x.framePos(fr, p), mkAnd(fr.cur, big), ts.False)
}

func init() {
	st := func(name string, f StubFn) { stubs[name] = f }
	// when the user/group manager is stubbed (extra_stubs) it behaves like a manager without limits
	st("(*github.com/apache/yunikorn-core/pkg/scheduler/ugm.Manager).CanRunApp", func(x *Exec, fr *Frame, fn *ssa.Function, a []Value, p token.Pos) Value {
		if !isStubPkg("github.com/apache/yunikorn-core/pkg/scheduler/ugm") {
			return x.callFunctionNoStub(fr, fn, a, p)
		}
		return VBool{ts.True}
	})
	st("math.Float64frombits", func(x *Exec, fr *Frame, fn *ssa.Function, a []Value, p token.Pos) Value {
		t := asInt(a[0])
		if !t.isConst() {
			notEncodable("math.Float64frombits of a symbolic value")
		}
		return VFloat{mkFConst(math.Float64frombits(t.c))}
	})
	st("math.Float64bits", func(x *Exec, fr *Frame, fn *ssa.Function, a []Value, p token.Pos) Value {
		t := asFloat(a[0])
		if !t.isConst() {
			notEncodable("math.Float64bits of a symbolic value")
		}
		return VInt{mkConst(64, t.c)}
	})
	st("math.Inf", func(x *Exec, fr *Frame, fn *ssa.Function, a []Value, p token.Pos) Value {
		s := asInt(a[0])
		if !s.isConst() {
			notEncodable("math.Inf of a symbolic sign")
		}
		if s.sval() >= 0 {
			return VFloat{mkFConst(math.Inf(1))}
		}
		return VFloat{mkFConst(math.Inf(-1))}
	})
	st("math.NaN", func(x *Exec, fr *Frame, fn *ssa.Function, a []Value, p token.Pos) Value {
		return VFloat{mkFConst(math.NaN())}
	})
	st("math.IsNaN", func(x *Exec, fr *Frame, fn *ssa.Function, a []Value, p token.Pos) Value {
		return VBool{mkFUn(OFIsNaN, asFloat(a[0]))}
	})
	st("math.IsInf", func(x *Exec, fr *Frame, fn *ssa.Function, a []Value, p token.Pos) Value {
		f, s := asFloat(a[0]), asInt(a[1])
		if !s.isConst() {
			notEncodable("math.IsInf with a symbolic sign")
		}
		pos := mkFCmp(OFEq, f, mkFConst(math.Inf(1)))
		neg := mkFCmp(OFEq, f, mkFConst(math.Inf(-1)))
		switch {
		case s.sval() > 0:
			return VBool{pos}
		case s.sval() < 0:
			return VBool{neg}
		}
		return VBool{mkOr(pos, neg)}
	})
	st("math.Floor", func(x *Exec, fr *Frame, fn *ssa.Function, a []Value, p token.Pos) Value {
		return VFloat{mkFUn(OFFloor, asFloat(a[0]))}
	})
	st("math.Abs", func(x *Exec, fr *Frame, fn *ssa.Function, a []Value, p token.Pos) Value {
		f := asFloat(a[0])
		// |float64(x)| for an exactly representable integer x is float64(|x|): keep the computation on integers
		if f.op == OSToF {
			xi := f.a[0]
			x.exactFloatObl(fr, xi, p)
			return VFloat{mkIntToF(mkIte(mkCmp(OSlt, xi, mkConst(xi.w, 0)), mkNeg(xi), xi), true)}
		}
		return VFloat{mkIte(mkFCmp(OFLt, f, mkFConst(0)), mkFUn(OFNeg, f), f)}
	})
	st("math.Max", func(x *Exec, fr *Frame, fn *ssa.Function, a []Value, p token.Pos) Value {
		f, g := asFloat(a[0]), asFloat(a[1])
		return VFloat{mkIte(mkFCmp(OFLt, f, g), g, f)}
	})
	st("math.Min", func(x *Exec, fr *Frame, fn *ssa.Function, a []Value, p token.Pos) Value {
		f, g := asFloat(a[0]), asFloat(a[1])
		return VFloat{mkIte(mkFCmp(OFLt, g, f), g, f)}
	})
}
