package main

import (
	"go/token"
	"math"

	"golang.org/x/tools/go/ssa"
)

func asFloat(v Value) *Term { return v.(VFloat).t }

func init() {
	st := func(name string, f StubFn) { stubs[name] = f }
	// when the user/group manager is stubbed (extra_stubs) it behaves like a manager without limits
	st("(*github.com/apache/yunikorn-core/pkg/scheduler/ugm.Manager).CanRunApp", func(x *Exec, fr *Frame, fn *ssa.Function, a []Value, p token.Pos) Value {
		if !isStubPkg("github.com/apache/yunikorn-core/pkg/scheduler/ugm") {
			return x.callFunctionNoStub(fr, fn, a, p)
		}
		return VBool{ts.True}
	})
	st("math.Float64frombits", func(x *Exec, fr *Frame, fn *ssa.Function, a []Value, p token.Pos) Value {
		t := asInt(a[0])
		if !t.isConst() {
			notEncodable("math.Float64frombits of a symbolic value")
		}
		return VFloat{mkFConst(math.Float64frombits(t.c))}
	})
	st("math.Float64bits", func(x *Exec, fr *Frame, fn *ssa.Function, a []Value, p token.Pos) Value {
		t := asFloat(a[0])
		if !t.isConst() {
			notEncodable("math.Float64bits of a symbolic value")
		}
		return VInt{mkConst(64, t.c)}
	})
	st("math.Inf", func(x *Exec, fr *Frame, fn *ssa.Function, a []Value, p token.Pos) Value {
		s := asInt(a[0])
		if !s.isConst() {
			notEncodable("math.Inf of a symbolic sign")
		}
		if s.sval() >= 0 {
			return VFloat{mkFConst(math.Inf(1))}
		}
		return VFloat{mkFConst(math.Inf(-1))}
	})
	st("math.NaN", func(x *Exec, fr *Frame, fn *ssa.Function, a []Value, p token.Pos) Value {
		return VFloat{mkFConst(math.NaN())}
	})
	st("math.IsNaN", func(x *Exec, fr *Frame, fn *ssa.Function, a []Value, p token.Pos) Value {
		return VBool{mkFUn(OFIsNaN, asFloat(a[0]))}
	})
	st("math.IsInf", func(x *Exec, fr *Frame, fn *ssa.Function, a []Value, p token.Pos) Value {
		f, s := asFloat(a[0]), asInt(a[1])
		if !s.isConst() {
			notEncodable("math.IsInf with a symbolic sign")
		}
		pos := mkFCmp(OFEq, f, mkFConst(math.Inf(1)))
		neg := mkFCmp(OFEq, f, mkFConst(math.Inf(-1)))
		switch {
		case s.sval() > 0:
			return VBool{pos}
		case s.sval() < 0:
			return VBool{neg}
		}
		return VBool{mkOr(pos, neg)}
	})
	st("math.Floor", func(x *Exec, fr *Frame, fn *ssa.Function, a []Value, p token.Pos) Value {
		return VFloat{mkFUn(OFFloor, asFloat(a[0]))}
	})
	st("math.Abs", func(x *Exec, fr *Frame, fn *ssa.Function, a []Value, p token.Pos) Value {
		f := asFloat(a[0])
		return VFloat{mkIte(mkFCmp(OFLt, f, mkFConst(0)), mkFUn(OFNeg, f), f)}
	})
	st("math.Max", func(x *Exec, fr *Frame, fn *ssa.Function, a []Value, p token.Pos) Value {
		f, g := asFloat(a[0]), asFloat(a[1])
		return VFloat{mkIte(mkFCmp(OFLt, f, g), g, f)}
	})
	st("math.Min", func(x *Exec, fr *Frame, fn *ssa.Function, a []Value, p token.Pos) Value {
		f, g := asFloat(a[0]), asFloat(a[1])
		return VFloat{mkIte(mkFCmp(OFLt, g, f), g, f)}
	})
}
