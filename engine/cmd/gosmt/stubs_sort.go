package main

// sort.Slice / sort.SliceStable run as real standard-library code; only the two reflection
// helpers they use are modelled: reflectlite.ValueOf(slice).Len() and reflectlite.Swapper(slice).

import (
	"go/token"

	"golang.org/x/tools/go/ssa"
)

// VNative wraps an engine value inside an opaque struct-typed value (reflectlite.Value)
type VNative struct{ v Value }

func ifaceInner(v Value) Value {
	iv, ok := v.(VIface)
	if !ok || len(iv.alts) != 1 || iv.alts[0].typ == nil {
		notEncodable("reflection on a symbolic interface value")
	}
	return iv.alts[0].val
}

func init() {
	stubs["internal/reflectlite.ValueOf"] = func(x *Exec, fr *Frame, fn *ssa.Function, a []Value, p token.Pos) Value {
		return VNative{ifaceInner(a[0])}
	}
	stubs["(internal/reflectlite.Value).Len"] = func(x *Exec, fr *Frame, fn *ssa.Function, a []Value, p token.Pos) Value {
		s, ok := a[0].(VNative).v.(VSlice)
		if !ok {
			notEncodable("reflectlite.Value.Len on a non-slice")
		}
		return VInt{x.sliceLen(s)}
	}
	stubs["internal/reflectlite.Swapper"] = func(x *Exec, fr *Frame, fn *ssa.Function, a []Value, p token.Pos) Value {
		s, ok := ifaceInner(a[0]).(VSlice)
		if !ok {
			notEncodable("reflectlite.Swapper on a non-slice")
		}
		swap := func(x *Exec, fr *Frame, args []Value) Value {
			i, j := asInt(args[0]), asInt(args[1])
			ri := x.sliceElemRef(fr, s, i, token.NoPos)
			rj := x.sliceElemRef(fr, s, j, token.NoPos)
			vi := x.load(fr, ri, token.NoPos)
			vj := x.load(fr, rj, token.NoPos)
			x.store(fr, ri, vj, token.NoPos)
			x.store(fr, rj, vi, token.NoPos)
			return nil
		}
		return VFunc{[]FuncAlt{{g: ts.True, native: swap}}}
	}
}
