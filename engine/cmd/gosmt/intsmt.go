package main

// INT-mode printer: machine integers are encoded as mathematical integers
// (their signed value) with explicit wrap-around (mod 2^w), so that
// multiplication, division and remainder become (non)linear integer
// arithmetic instead of bit-blasted circuits. Semantics are identical to the
// bit-vector encoding; operations that have no integer counterpart make the
// printer give up (ok=false) and the caller falls back to bit-vectors.

import (
	"fmt"
	"math/big"
	"strings"
)

type intPrinter struct {
	sb   strings.Builder
	done map[int]bool
	vars map[string]*Term
	ok   bool
	why  string
}

func pow2(w int) string { return new(big.Int).Lsh(big.NewInt(1), uint(w)).String() }

func intLit(v int64) string {
	if v < 0 {
		return "(- " + new(big.Int).Neg(big.NewInt(v)).String() + ")"
	}
	return fmt.Sprintf("%d", v)
}

func (p *intPrinter) ref(t *Term) string {
	switch t.op {
	case OConst:
		if t.kind == 'b' {
			if t.c == 1 {
				return "true"
			}
			return "false"
		}
		if t.kind == 'v' {
			return intLit(t.sval())
		}
	case OVar:
		return "|" + t.name + "|"
	}
	return fmt.Sprintf("t%d", t.id)
}

func fullR(t *Term) bool {
	lo, hi := fullRange(t.w)
	return t.lo == lo && t.hi == hi
}

// wrap: signed value of raw modulo 2^w
func wrapS(raw string, w int) string {
	return fmt.Sprintf("(- (mod (+ %s %s) %s) %s)", raw, pow2(w-1), pow2(w), pow2(w-1))
}

// unsigned view of a term
func (p *intPrinter) uns(t *Term) string {
	if t.lo >= 0 {
		return p.ref(t)
	}
	return fmt.Sprintf("(mod %s %s)", p.ref(t), pow2(t.w))
}

func toSigned(u string, w int) string {
	return fmt.Sprintf("(ite (>= %s %s) (- %s %s) %s)", u, pow2(w-1), u, pow2(w), u)
}

func isPow2(v uint64) (int, bool) {
	if v == 0 || v&(v-1) != 0 {
		return 0, false
	}
	k := 0
	for v > 1 {
		v >>= 1
		k++
	}
	return k, true
}

func (p *intPrinter) emit(root *Term) {
	type fr struct {
		t *Term
		i int
	}
	st := []fr{{root, 0}}
	for len(st) > 0 && p.ok {
		f := &st[len(st)-1]
		t := f.t
		if p.done[t.id] {
			st = st[:len(st)-1]
			continue
		}
		if f.i < len(t.a) {
			c := t.a[f.i]
			f.i++
			if !p.done[c.id] {
				st = append(st, fr{c, 0})
			}
			continue
		}
		st = st[:len(st)-1]
		p.done[t.id] = true
		switch t.op {
		case OConst:
			if t.kind == 'f' {
				p.ok, p.why = false, "float constant"
			}
			continue
		case OVar:
			if _, seen := p.vars[t.name]; !seen {
				p.vars[t.name] = t
				switch t.kind {
				case 'b':
					fmt.Fprintf(&p.sb, "(declare-fun |%s| () Bool)\n", t.name)
				case 'v':
					lo, hi := t.lo, t.hi // declared range (full range of the width unless declared narrower)
					fmt.Fprintf(&p.sb, "(declare-fun |%s| () Int)\n(assert (and (<= %s |%s|) (<= |%s| %s)))\n", t.name, intLit(lo), t.name, t.name, intLit(hi))
				default:
					p.ok, p.why = false, "float variable"
				}
			}
			continue
		}
		e := p.expr(t)
		if !p.ok {
			return
		}
		srt := "Int"
		if t.kind == 'b' {
			srt = "Bool"
		}
		fmt.Fprintf(&p.sb, "(define-fun t%d () %s %s)\n", t.id, srt, e)
	}
}

func (p *intPrinter) expr(t *Term) string {
	r := func(i int) string { return p.ref(t.a[i]) }
	w := t.w
	arith := func(raw string) string {
		if !fullR(t) {
			return raw // the range analysis showed no wrap is possible
		}
		return wrapS(raw, w)
	}
	switch t.op {
	case OAdd:
		return arith(fmt.Sprintf("(+ %s %s)", r(0), r(1)))
	case OSub:
		return arith(fmt.Sprintf("(- %s %s)", r(0), r(1)))
	case OMul:
		return arith(fmt.Sprintf("(* %s %s)", r(0), r(1)))
	case ONeg:
		return arith(fmt.Sprintf("(- %s)", r(0)))
	case OUDiv:
		ua, ub := p.uns(t.a[0]), p.uns(t.a[1])
		return toSigned(fmt.Sprintf("(ite (= %s 0) %s (div %s %s))", ub, new(big.Int).Sub(new(big.Int).Lsh(big.NewInt(1), uint(w)), big.NewInt(1)).String(), ua, ub), w)
	case OURem:
		ua, ub := p.uns(t.a[0]), p.uns(t.a[1])
		return toSigned(fmt.Sprintf("(ite (= %s 0) %s (mod %s %s))", ub, ua, ua, ub), w)
	case OSDiv:
		a, b := r(0), r(1)
		q0 := fmt.Sprintf("(div (abs %s) (abs %s))", a, b)
		q := fmt.Sprintf("(ite (= (< %s 0) (< %s 0)) %s (- %s))", a, b, q0, q0)
		return fmt.Sprintf("(ite (= %s 0) (ite (< %s 0) 1 (- 1)) %s)", b, a, wrapS(q, w))
	case OSRem:
		a, b := r(0), r(1)
		r0 := fmt.Sprintf("(mod (abs %s) (abs %s))", a, b)
		return fmt.Sprintf("(ite (= %s 0) %s (ite (< %s 0) (- %s) %s))", b, a, a, r0, r0)
	case OShl:
		if t.a[1].isConst() {
			c := t.a[1].c
			if c >= uint64(w) {
				return "0"
			}
			return wrapS(fmt.Sprintf("(* %s %s)", r(0), pow2(int(c))), w)
		}
	case OLShr:
		if t.a[1].isConst() {
			c := t.a[1].c
			if c >= uint64(w) {
				return "0"
			}
			return toSigned(fmt.Sprintf("(div %s %s)", p.uns(t.a[0]), pow2(int(c))), w)
		}
	case OAShr:
		if t.a[1].isConst() {
			c := t.a[1].c
			if c >= uint64(w) {
				c = uint64(w - 1)
			}
			return fmt.Sprintf("(div %s %s)", r(0), pow2(int(c)))
		}
	case OAnd:
		for i := 0; i < 2; i++ {
			if t.a[i].isConst() {
				if k, ok := isPow2(t.a[i].c + 1); ok && k < w {
					return fmt.Sprintf("(mod %s %s)", r(1-i), pow2(k))
				}
			}
		}
	case OMulHiS:
		return fmt.Sprintf("(div (* %s %s) %s)", r(0), r(1), pow2(64))
	case OSExt:
		return r(0)
	case OZExt:
		return p.uns(t.a[0])
	case OTrunc:
		if inW(t.a[0].lo, w) && inW(t.a[0].hi, w) {
			return r(0)
		}
		return wrapS(r(0), w)
	case OEq:
		if t.a[0].kind == 'f' {
			break
		}
		return fmt.Sprintf("(= %s %s)", r(0), r(1))
	case OSlt:
		return fmt.Sprintf("(< %s %s)", r(0), r(1))
	case OSle:
		return fmt.Sprintf("(<= %s %s)", r(0), r(1))
	case OUlt:
		return fmt.Sprintf("(< %s %s)", p.uns(t.a[0]), p.uns(t.a[1]))
	case OUle:
		return fmt.Sprintf("(<= %s %s)", p.uns(t.a[0]), p.uns(t.a[1]))
	case OBAnd, OBOr:
		var sb strings.Builder
		sb.WriteString("(" + opNames[t.op])
		for i := range t.a {
			sb.WriteString(" " + r(i))
		}
		sb.WriteString(")")
		return sb.String()
	case OBNot:
		return "(not " + r(0) + ")"
	case OIte:
		if t.kind == 'f' {
			break
		}
		return fmt.Sprintf("(ite %s %s %s)", r(0), r(1), r(2))
	}
	p.ok = false
	p.why = fmt.Sprintf("operation %d has no integer encoding", t.op)
	return ""
}

// buildQueryInt renders the conjunction in INT mode; ok=false if some operation cannot be expressed.
func buildQueryInt(conj []*Term) (string, []string, bool) {
	p := &intPrinter{done: map[int]bool{}, vars: map[string]*Term{}, ok: true}
	for _, t := range conj {
		p.emit(t)
		if !p.ok {
			return "", nil, false
		}
	}
	var sb strings.Builder
	sb.WriteString(p.sb.String())
	for _, t := range conj {
		sb.WriteString("(assert " + p.ref(t) + ")\n")
	}
	var vars []string
	for n := range p.vars {
		vars = append(vars, n)
	}
	return sb.String(), vars, true
}
