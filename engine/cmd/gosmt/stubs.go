package main

import (
	"fmt"
	"go/token"
	"go/types"
	"path/filepath"
	"strings"

	"golang.org/x/tools/go/ssa"
)

type StubFn func(x *Exec, fr *Frame, fn *ssa.Function, args []Value, p token.Pos) Value

var stubPkgs = []string{
	"go.uber.org/zap",
	"github.com/apache/yunikorn-core/pkg/log",
	"github.com/apache/yunikorn-core/pkg/metrics",
	"github.com/prometheus/",
	"github.com/apache/yunikorn-core/pkg/locking",
	"github.com/sasha-s/go-deadlock",
	"github.com/apache/yunikorn-core/pkg/scheduler/objects/events",
	"runtime",
	"os",
	"log",
}

// packages that are stubbed unless they are the package under test
var stubUnlessSubject = []string{
	"github.com/apache/yunikorn-core/pkg/events",
}

var subjectPkg string

// guard of the stub call being executed (set by callFunction)
var stubGuard *Term

func isStubPkg(path string) bool {
	for _, p := range stubPkgs {
		if path == p || strings.HasPrefix(path, p+"/") || (strings.HasSuffix(p, "/") && strings.HasPrefix(path, p)) {
			return true
		}
	}
	for _, p := range stubUnlessSubject {
		if path == p && subjectPkg != p {
			return true
		}
	}
	return false
}

func constStr(v Value) string {
	s, ok := v.(VStr)
	if ok && len(s.alts) == 1 && s.alts[0].g.isTrue() {
		return s.alts[0].s
	}
	if ok && stubGuard != nil {
		// a literal stored under the guard of a conditional call: pick the alternative the call guard implies
		for _, a := range s.alts {
			if mkAnd(stubGuard, a.g) == stubGuard {
				return a.s
			}
		}
	}
	notEncodable("expected concrete string, got %s", describe(v))
	return ""
}

func (x *Exec) input(name, kind string, w int, lo, hi int64, ranged bool) *Term {
	if iv, ok := x.inputByNm[name]; ok {
		return iv.t
	}
	var t *Term
	if x.concrete != nil {
		v := x.concrete[name]
		if kind == "bool" {
			t = mkBool(v != 0)
		} else {
			t = mkConst(w, v)
		}
	} else if kind == "bool" {
		t = mkVar("in_"+name, 'b', 0)
	} else if ranged {
		t = mkVarRange("in_"+name, w, lo, hi)
		x.rangeAss = append(x.rangeAss, mkCmp(OSle, mkConstS(w, lo), t), mkCmp(OSle, t, mkConstS(w, hi)))
	} else {
		t = mkVar("in_"+name, 'v', w)
	}
	iv := &InputVar{Name: name, Kind: kind, t: t}
	x.inputs = append(x.inputs, iv)
	x.inputByNm[name] = iv
	return t
}

var harnessPrims = map[string]StubFn{
	"vInt64": func(x *Exec, fr *Frame, fn *ssa.Function, a []Value, p token.Pos) Value {
		return VInt{x.input(constStr(a[0]), "int64", 64, 0, 0, false)}
	},
	"vUint64": func(x *Exec, fr *Frame, fn *ssa.Function, a []Value, p token.Pos) Value {
		return VInt{x.input(constStr(a[0]), "uint64", 64, 0, 0, false)}
	},
	"vInt32": func(x *Exec, fr *Frame, fn *ssa.Function, a []Value, p token.Pos) Value {
		return VInt{x.input(constStr(a[0]), "int32", 32, 0, 0, false)}
	},
	"vFloat64": func(x *Exec, fr *Frame, fn *ssa.Function, a []Value, p token.Pos) Value {
		name := constStr(a[0])
		if iv, ok := x.inputByNm[name]; ok {
			return VFloat{iv.t}
		}
		var t *Term
		if x.concrete != nil {
			t = ts.intern(&Term{op: OConst, kind: 'f', c: x.concrete[name]})
		} else {
			t = mkVar("in_"+name, 'f', 0)
		}
		iv := &InputVar{Name: name, Kind: "float64", t: t}
		x.inputs = append(x.inputs, iv)
		x.inputByNm[name] = iv
		return VFloat{t}
	},
	"vRange": func(x *Exec, fr *Frame, fn *ssa.Function, a []Value, p token.Pos) Value {
		lo, hi := asInt(a[1]), asInt(a[2])
		if !lo.isConst() || !hi.isConst() {
			notEncodable("vRange bounds must be constants")
		}
		return VInt{x.input(constStr(a[0]), "int64", 64, lo.sval(), hi.sval(), true)}
	},
	"vBool": func(x *Exec, fr *Frame, fn *ssa.Function, a []Value, p token.Pos) Value {
		return VBool{x.input(constStr(a[0]), "bool", 0, 0, 0, false)}
	},
	"vChoice": func(x *Exec, fr *Frame, fn *ssa.Function, a []Value, p token.Pos) Value {
		n := asInt(a[1])
		if !n.isConst() {
			notEncodable("vChoice n must be constant")
		}
		t := x.input(constStr(a[0]), "choice", 64, 0, n.sval()-1, true)
		x.inputByNm[constStr(a[0])].N = int(n.sval())
		return VInt{t}
	},
	"vStr": func(x *Exec, fr *Frame, fn *ssa.Function, a []Value, p token.Pos) Value {
		name := constStr(a[0])
		cells, ln := x.sliceCells(a[1].(VSlice))
		n := int(ln.sval())
		if n == 0 {
			notEncodable("vStr without alternatives")
		}
		t := x.input(name, "str", 64, 0, int64(n-1), true)
		iv := x.inputByNm[name]
		iv.N = n
		var alts []StrAlt
		iv.Alts = nil
		for k := 0; k < n; k++ {
			s := constStr(cells[k])
			iv.Alts = append(iv.Alts, s)
			alts = append(alts, StrAlt{mkEq(t, mkConst(64, uint64(k))), s})
		}
		return normStr(alts)
	},
	"vAssume": func(x *Exec, fr *Frame, fn *ssa.Function, a []Value, p token.Pos) Value {
		c := asBool(a[0])
		x.assumes = append(x.assumes, mkImplies(x.alive(fr.cur), c))
		return nil
	},
	"vAssert": func(x *Exec, fr *Frame, fn *ssa.Function, a []Value, p token.Pos) Value {
		c := asBool(a[0])
		o := x.addObl("assert", constStr(a[1]), x.framePos(fr, p), fr.cur, c)
		o.known = x.pendKnown
		x.pendKnown = nil
		return nil
	},
	"vReach": func(x *Exec, fr *Frame, fn *ssa.Function, a []Value, p token.Pos) Value {
		x.addObl("reach", constStr(a[0]), x.framePos(fr, p), fr.cur, ts.False)
		return nil
	},
	"vKnown": func(x *Exec, fr *Frame, fn *ssa.Function, a []Value, p token.Pos) Value {
		x.pendKnown = append(x.pendKnown, KnownRegion{constStr(a[0]), asBool(a[1])})
		return nil
	},
	"vPanics": func(x *Exec, fr *Frame, fn *ssa.Function, a []Value, p token.Pos) Value {
		x.assumeNoPanic = !asBool(a[0]).isTrue()
		return nil
	},
	"vSplit": func(x *Exec, fr *Frame, fn *ssa.Function, a []Value, p token.Pos) Value {
		x.splitVars = append(x.splitVars, constStr(a[0]))
		return nil
	},
	"vSliceBound": func(x *Exec, fr *Frame, fn *ssa.Function, a []Value, p token.Pos) Value {
		x.sliceBound = int(asInt(a[0]).sval())
		return nil
	},
	"vUnwind": func(x *Exec, fr *Frame, fn *ssa.Function, a []Value, p token.Pos) Value {
		x.unwind = int(asInt(a[0]).sval())
		return nil
	},
	"vObserve": func(x *Exec, fr *Frame, fn *ssa.Function, a []Value, p token.Pos) Value {
		name := constStr(a[0])
		x.observes = append(x.observes, name+"="+x.showObserved(a[1]))
		return nil
	},
	"vTier": func(x *Exec, fr *Frame, fn *ssa.Function, a []Value, p token.Pos) Value {
		return VInt{mkConst(64, uint64(tierN))}
	},
	"vMulHi": func(x *Exec, fr *Frame, fn *ssa.Function, a []Value, p token.Pos) Value {
		return VInt{mkMulHiS(asInt(a[0]), asInt(a[1]))}
	},
	"vSymbolic": func(x *Exec, fr *Frame, fn *ssa.Function, a []Value, p token.Pos) Value {
		return VBool{mkBool(x.concrete == nil)}
	},
}

func (x *Exec) showObserved(v Value) string {
	switch t := v.(type) {
	case VIface:
		if len(t.alts) == 1 && t.alts[0].typ != nil {
			return x.showObserved(t.alts[0].val)
		}
		if len(t.alts) == 1 {
			return "<nil>"
		}
	case VInt:
		if t.t.isConst() {
			return fmt.Sprintf("%d", t.t.sval())
		}
	case VBool:
		if t.t.isConst() {
			return fmt.Sprintf("%v", t.t.isTrue())
		}
	case VStr:
		if len(t.alts) == 1 {
			return t.alts[0].s
		}
	}
	return "?"
}

func (x *Exec) findStub(fn *ssa.Function, name string) StubFn {
	if st, ok := harnessPrims[fn.Name()]; ok && fn.Pkg != nil {
		if strings.HasPrefix(filepath.Base(x.prog.Fset.Position(fn.Pos()).Filename), "zz_verif_rt") {
			return st
		}
	}
	if st, ok := stubs[name]; ok {
		return st
	}
	if nf, ok := nativeFuncs[name]; ok {
		return func(x *Exec, fr *Frame, fn *ssa.Function, args []Value, p token.Pos) Value {
			return x.nativeCall(fr, fn, nf, args, p)
		}
	}
	o := fn
	if fn.Origin() != nil {
		o = fn.Origin()
		if st, ok := stubs[o.String()]; ok {
			return st
		}
	}
	var path string
	if o.Pkg != nil {
		path = o.Pkg.Pkg.Path()
	} else if o.Object() != nil && o.Object().Pkg() != nil {
		path = o.Object().Pkg().Path()
	} else if recv := o.Signature.Recv(); recv != nil {
		t := recv.Type()
		if pt, ok := t.(*types.Pointer); ok {
			t = pt.Elem()
		}
		if nt, ok := t.(*types.Named); ok && nt.Obj().Pkg() != nil {
			path = nt.Obj().Pkg().Path()
		}
	}
	if path != "" && isStubPkg(path) {
		return noopStub
	}
	return nil
}

func (x *Exec) findInvokeStub(typ types.Type, m *types.Func) StubFn {
	return nil
}

// summaryStub: the callee is summarised as "returns an arbitrary value": fresh solver variables for
// float / int / bool results (not harness inputs: a counterexample that depends on them is checked by replay)
func summaryStub(x *Exec, fr *Frame, fn *ssa.Function, args []Value, p token.Pos) Value {
	res := fn.Signature.Results()
	mk := func(t types.Type) Value {
		x.freshN++
		name := fmt.Sprintf("sum_%s_%d", fn.Name(), x.freshN)
		switch {
		case isFloat(t):
			if x.concrete != nil {
				return VFloat{mkFConst(0)}
			}
			return VFloat{mkVar(name, 'f', 0)}
		default:
			if w, _ := intWidth(t); w > 0 {
				if x.concrete != nil {
					return VInt{mkConst(w, 0)}
				}
				return VInt{mkVar(name, 'v', w)}
			}
			if b, ok := t.Underlying().(*types.Basic); ok && b.Info()&types.IsBoolean != 0 {
				if x.concrete != nil {
					return VBool{ts.False}
				}
				return VBool{mkVar(name, 'b', 0)}
			}
		}
		return zeroValue(t)
	}
	switch res.Len() {
	case 0:
		return nil
	case 1:
		return mk(res.At(0).Type())
	}
	e := make([]Value, res.Len())
	for i := range e {
		e[i] = mk(res.At(i).Type())
	}
	return VTuple{e}
}

func noopStub(x *Exec, fr *Frame, fn *ssa.Function, args []Value, p token.Pos) Value {
	return x.zeroResults(fn.Signature)
}

var stubs = map[string]StubFn{}

func init() {
	for _, n := range []string{
		"(*sync.Mutex).Lock", "(*sync.Mutex).Unlock", "(*sync.RWMutex).Lock", "(*sync.RWMutex).Unlock",
		"(*sync.RWMutex).RLock", "(*sync.RWMutex).RUnlock", "(*sync.WaitGroup).Add", "(*sync.WaitGroup).Done", "(*sync.WaitGroup).Wait",
		"(*sync.Mutex).TryLock",
	} {
		stubs[n] = noopStub
	}
	stubs["(*sync.Once).Do"] = func(x *Exec, fr *Frame, fn *ssa.Function, a []Value, p token.Pos) Value {
		r := a[0].(VRef)
		if len(r.alts) != 1 || r.alts[0].obj == nil {
			notEncodable("sync.Once on symbolic pointer")
		}
		o := r.alts[0].obj
		key := fmt.Sprintf("once:%d:%v", o.id, r.alts[0].path)
		if x.warnings[key] > 0 {
			return nil
		}
		x.warnings[key] = 1
		fv := a[1].(VFunc)
		for _, al := range fv.alts {
			if al.fn != nil {
				x.callFunction(fr, al.fn, nil, al.binds, mkAnd(fr.cur, al.g), p)
			}
		}
		return nil
	}
	stubs["fmt.Sprintf"] = func(x *Exec, fr *Frame, fn *ssa.Function, a []Value, p token.Pos) Value {
		return x.nativeSprintf(a[0], a[1])
	}
	stubs["fmt.Errorf"] = func(x *Exec, fr *Frame, fn *ssa.Function, a []Value, p token.Pos) Value {
		return x.newError(x.nativeSprintf(a[0], a[1]))
	}
	stubs["fmt.Sprint"] = func(x *Exec, fr *Frame, fn *ssa.Function, a []Value, p token.Pos) Value {
		return concreteStr("<sprint>")
	}
	stubs["fmt.Println"] = noopStub
	stubs["fmt.Printf"] = noopStub
	stubs["errors.New"] = func(x *Exec, fr *Frame, fn *ssa.Function, a []Value, p token.Pos) Value {
		return x.newError(a[0])
	}
	stubs["errors.Join"] = func(x *Exec, fr *Frame, fn *ssa.Function, a []Value, p token.Pos) Value {
		// nil if all nil, else an opaque error
		cells, ln := x.sliceCells(a[0].(VSlice))
		anyNonNil := ts.False
		for k := 0; k < len(cells); k++ {
			in := mkCmp(OUlt, mkConst(64, uint64(k)), ln)
			for _, al := range cells[k].(VIface).alts {
				if al.typ != nil {
					anyNonNil = mkOr(anyNonNil, mkAnd(in, al.g))
				}
			}
		}
		e := x.newError(concreteStr("<joined>")).(VIface)
		return mergeVal(anyNonNil, e, nilIface())
	}
}

// newError builds a *errors.errorString-like error value carrying msg.
func (x *Exec) newError(msg Value) Value {
	ep := x.prog.ImportedPackage("errors")
	if ep == nil {
		notEncodable("package errors not loaded")
	}
	nt := ep.Type("errorString").Type()
	st := nt.Underlying().(*types.Struct)
	_ = st
	o := x.newObj(KCell, nt, VStruct{[]Value{msg}})
	return VIface{[]IfaceAlt{{ts.True, types.NewPointer(nt), refTo(o)}}}
}

func (x *Exec) nativeSprintf(format Value, argv Value) Value {
	fs, ok := format.(VStr)
	if !ok || len(fs.alts) != 1 {
		return concreteStr("<fmt>")
	}
	cells, ln := x.sliceCells(argv.(VSlice))
	if !ln.isConst() {
		return concreteStr("<fmt>")
	}
	n := int(ln.sval())
	// expand alternatives of string args (bounded product)
	type combo struct {
		g    *Term
		args []interface{}
	}
	combos := []combo{{ts.True, nil}}
	for k := 0; k < n; k++ {
		var opts []struct {
			g *Term
			v interface{}
		}
		add := func(g *Term, v interface{}) {
			opts = append(opts, struct {
				g *Term
				v interface{}
			}{g, v})
		}
		iv, _ := cells[k].(VIface)
		if len(iv.alts) != 1 || iv.alts[0].typ == nil {
			add(ts.True, "<?>")
		} else {
			switch v := iv.alts[0].val.(type) {
			case VStr:
				for _, al := range v.alts {
					add(al.g, al.s)
				}
			case VInt:
				if v.t.isConst() {
					if _, signed := intWidth(iv.alts[0].typ); signed {
						add(ts.True, v.t.sval())
					} else {
						add(ts.True, v.t.c)
					}
				} else {
					add(ts.True, "<int>")
				}
			case VBool:
				if v.t.isConst() {
					add(ts.True, v.t.isTrue())
				} else {
					add(ts.True, "<bool>")
				}
			default:
				add(ts.True, "<"+iv.alts[0].typ.String()+">")
			}
		}
		var nc []combo
		for _, c := range combos {
			for _, o := range opts {
				g := mkAnd(c.g, o.g)
				if g.isFalse() {
					continue
				}
				nc = append(nc, combo{g, append(append([]interface{}{}, c.args...), o.v)})
			}
		}
		combos = nc
		if len(combos) > 64 {
			return concreteStr("<fmt>")
		}
	}
	var alts []StrAlt
	for _, c := range combos {
		alts = append(alts, StrAlt{c.g, fmt.Sprintf(fs.alts[0].s, c.args...)})
	}
	return normStr(alts)
}
