package main

// Discharging the obligations of one harness: all terms are printed ONCE as a
// shared base of define-funs that every solver process of the harness loads at
// start-up; each query is then only (push)(assert ...)(check-sat)(pop).

import (
	"fmt"
	"os"
	"path/filepath"
	"sort"
	"strings"
	"sync"
	"time"
)

type djob struct {
	o     *Obligation
	mode  string // viol | reach | known:<id> | batch
	conj  []*Term
	batch []*Obligation
	res   QueryResult
}

type basePrinter interface {
	ref(t *Term) string
}

func dischargeHarness(cfg *PropConfig, hr *HarnessResult, getPool func(string) *Pool, solver, fpSolver string, timeout time.Duration, jobs int, dump bool, outDir string) (int, int64) {
	base := func(o *Obligation) []*Term {
		c := append([]*Term{}, hr.rangeAss...)
		c = append(c, hr.assumes[:o.nAssume]...)
		c = append(c, o.guard)
		return c
	}
	var batches, js []*djob
	// implicit checks in batches per assumption prefix
	groups := map[int][]*Obligation{}
	for _, o := range hr.Obls {
		if o.Kind == "panic" {
			groups[2*o.nAssume] = append(groups[2*o.nAssume], o)
		}
		if o.Kind == "unwind" {
			groups[2*o.nAssume+1] = append(groups[2*o.nAssume+1], o)
		}
	}
	var gkeys []int
	for n := range groups {
		gkeys = append(gkeys, n)
	}
	sort.Ints(gkeys)
	inBatch := map[*Obligation]bool{}
	for _, n := range gkeys {
		os := groups[n]
		if len(os) < 4 {
			continue
		}
		var gs []*Term
		for _, o := range os {
			gs = append(gs, o.guard)
			inBatch[o] = true
		}
		c := append([]*Term{}, hr.rangeAss...)
		c = append(c, hr.assumes[:n/2]...)
		_ = gs
		batches = append(batches, &djob{mode: "batch", conj: c, batch: os})
	}
	// reachability is decided per split case as well: reachable if some case is
	reachJobs := func(o *Obligation) []*djob {
		parts := hr.splitCases()
		if len(parts) <= 1 {
			return []*djob{{o: o, mode: "reach", conj: base(o)}}
		}
		var out []*djob
		for _, pc := range parts {
			out = append(out, &djob{o: o, mode: "reach", conj: append(base(o), pc)})
		}
		return out
	}
	mkJobs := func(o *Obligation, forceSingle bool) []*djob {
		var out []*djob
		switch o.Kind {
		case "assert":
			v := append(base(o), mkNot(o.cond))
			for _, k := range o.known {
				if _, listed := knownGlobal[k.ID]; listed {
					v = append(v, mkNot(k.region))
				}
			}
			if parts := hr.splitCases(); len(parts) > 1 {
				for _, pc := range parts {
					out = append(out, &djob{o: o, mode: "viol", conj: append(append([]*Term{}, v...), pc)})
				}
			} else {
				out = append(out, &djob{o: o, mode: "viol", conj: v})
			}
			out = append(out, reachJobs(o)...)
			for _, k := range o.known {
				if _, listed := knownGlobal[k.ID]; !listed {
					continue
				}
				out = append(out, &djob{o: o, mode: "known:" + k.ID, conj: append(base(o), mkNot(o.cond), k.region)})
			}
		case "panic", "unwind":
			if !inBatch[o] || forceSingle {
				out = append(out, &djob{o: o, mode: "viol", conj: base(o)})
			}
		case "reach":
			out = append(out, reachJobs(o)...)
		}
		return out
	}
	for _, o := range hr.Obls {
		js = append(js, mkJobs(o, false)...)
	}
	// individual jobs for batched obligations are prepared now (terms must be created sequentially)
	single := map[*Obligation]*djob{}
	for o := range inBatch {
		single[o] = &djob{o: o, mode: "viol", conj: base(o)}
	}
	// shared base
	seen := map[int]bool{}
	var roots []*Term
	addRoots := func(c []*Term) {
		for _, t := range c {
			if !seen[t.id] {
				seen[t.id] = true
				roots = append(roots, t)
			}
		}
	}
	for _, j := range batches {
		addRoots(j.conj)
	}
	for _, j := range js {
		addRoots(j.conj)
	}
	for _, j := range single {
		addRoots(j.conj)
	}
	intMode := intModeRe != nil && intModeRe.MatchString(hr.Name)
	var baseText string
	var pr basePrinter
	var declared map[string]*Term
	if intMode {
		ip := &intPrinter{done: map[int]bool{}, vars: map[string]*Term{}, ok: true}
		for _, t := range roots {
			ip.emit(t)
			if !ip.ok {
				break
			}
		}
		if ip.ok {
			baseText, pr, declared = ip.sb.String(), ip, ip.vars
		} else {
			intMode = false
		}
	}
	if !intMode {
		bp := newPrinter()
		for _, t := range roots {
			bp.emit(t)
		}
		var hdr strings.Builder
		for name, u := range bp.ufs {
			hdr.WriteString("(declare-fun |" + name + "| (")
			for _, a := range u.a {
				hdr.WriteString(sortStr(a) + " ")
			}
			hdr.WriteString(") " + sortStr(u) + ")\n")
		}
		baseText, pr, declared = hdr.String()+bp.sb.String(), bp, bp.vars
	}
	sn := solver
	if hasFP(roots) {
		sn = fpSolver
	}
	if intMode {
		sn = "z3-new"
	}
	var vars []string
	for _, iv := range hr.Inputs {
		if iv.t.op == OVar {
			if _, ok := declared[iv.t.name]; ok {
				vars = append(vars, iv.t.name)
			}
		}
	}
	pool := newPool(sn, jobs)
	pool.base = baseText
	defer pool.close()
	asserts := func(c []*Term) string {
		var sb strings.Builder
		for _, t := range c {
			if t.isTrue() {
				continue
			}
			sb.WriteString("(assert " + pr.ref(t) + ")\n")
		}
		return sb.String()
	}
	folded := func(c []*Term) bool {
		for _, t := range c {
			if t.isFalse() {
				return true
			}
		}
		return false
	}
	runAll := func(list []*djob) {
		var wg sync.WaitGroup
		sem := make(chan struct{}, jobs)
		for _, j := range list {
			if folded(j.conj) {
				j.res = QueryResult{Verdict: "unsat", Raw: "folded"}
				continue
			}
			wg.Add(1)
			sem <- struct{}{}
			go func(j *djob) {
				defer wg.Done()
				defer func() { <-sem }()
				body := asserts(j.conj)
				vs := vars
				if j.mode == "batch" {
					vs = nil
					var sb strings.Builder
					sb.WriteString("(assert (or false")
					for _, o := range j.batch {
						sb.WriteString(" " + pr.ref(o.guard))
					}
					sb.WriteString("))\n")
					body += sb.String()
				}
				j.res = pool.query(body, vs, timeout)
				if j.res.Verdict != "sat" && j.res.Verdict != "unsat" {
					// second and third chance: the stand-alone bit-vector encoding on the default solver (when the
					// first attempt was the integer encoding) and on the other z3 release. A solver that wanders off
					// on one run of a query it normally answers in seconds must not make the check inconclusive.
					var alts []string
					if intMode {
						alts = append(alts, solver)
					}
					for _, a := range []string{"z3-new", "z3"} {
						if a != sn || intMode {
							if len(alts) == 0 || alts[0] != a {
								alts = append(alts, a)
							}
						}
					}
					for _, a := range alts {
						b, v := buildQuery(j.conj)
						r2 := getPool(a).query(b, v, timeout)
						if r2.Verdict == "sat" || r2.Verdict == "unsat" {
							j.res = r2
							break
						}
					}
				}
				if (j.res.Verdict == "error" || j.res.Verdict == "unknown") && dump && j.o != nil {
					os.WriteFile(filepath.Join(outDir, fmt.Sprintf("q_%s_%s.smt2", hr.Name, sanitize(j.o.Label))), []byte(baseText+body+"(check-sat)\n"), 0o644)
					fmt.Printf("  %s on %s/%s: %s\n", j.res.Verdict, hr.Name, j.o.Label, tail(j.res.Raw, 300))
				}
			}(j)
		}
		wg.Wait()
	}
	if os.Getenv("GOSMT_VERBOSE") != "" {
		fmt.Fprintf(os.Stderr, "  %s: %d obligations, %d batches, %d jobs, base %d KB, solver %s, split cases %d, terms %d\n", hr.Name, len(hr.Obls), len(batches), len(js), len(baseText)/1024, sn, len(hr.splitCases()), len(ts.all))
		cnt := map[string]int{}
		for _, o := range hr.Obls {
			cnt[o.Kind+": "+o.Label]++
		}
		for k, v := range cnt {
			fmt.Fprintf(os.Stderr, "    %4d %s\n", v, k)
		}
	}
	// batches are bisected while satisfiable, down to single obligations
	for pending := batches; len(pending) > 0; {
		runAll(pending)
		var next []*djob
		for _, b := range pending {
			if b.res.Verdict == "unsat" {
				for _, o := range b.batch {
					o.Verdict = "unsat"
					o.TimeMS = b.res.MS / int64(len(b.batch))
				}
				continue
			}
			if b.batch[0].Kind == "unwind" {
				// an unwinding bound that may be too small makes the whole run inconclusive: no need to find out which
				for _, o := range b.batch {
					o.Verdict = b.res.Verdict
					if o.Verdict == "sat" {
						o.Verdict = "sat (some loop of this batch needs more iterations)"
					}
				}
				continue
			}
			if len(b.batch) <= 3 {
				for _, o := range b.batch {
					js = append(js, single[o])
				}
				continue
			}
			h := len(b.batch) / 2
			next = append(next, &djob{mode: "batch", conj: b.conj, batch: b.batch[:h]}, &djob{mode: "batch", conj: b.conj, batch: b.batch[h:]})
		}
		pending = next
	}
	runAll(js)
	for _, j := range js {
		o := j.o
		o.TimeMS += j.res.MS
		o.SMTBytes = len(baseText)
		switch {
		case j.mode == "viol":
			switch {
			case o.Verdict == "sat":
			case j.res.Verdict == "sat":
				o.Verdict = "sat"
			case o.Verdict == "" || o.Verdict == "unsat":
				o.Verdict = j.res.Verdict
			}
			if j.res.Verdict == "sat" && o.modelLits == nil {
				o.modelLits = j.res.Model
			}
		case j.mode == "reach":
			switch {
			case o.Reach == "sat":
			case j.res.Verdict == "sat":
				o.Reach = "sat"
			case o.Reach == "" || o.Reach == "unsat":
				o.Reach = j.res.Verdict
			}
			if j.res.Verdict == "sat" && o.reachLits == nil {
				o.reachLits = j.res.Model
			}
			if o.Kind == "reach" {
				o.Verdict = o.Reach
			}
		case strings.HasPrefix(j.mode, "known:"):
			if o.knownRes == nil {
				o.knownRes = map[string]QueryResult{}
			}
			o.knownRes[strings.TrimPrefix(j.mode, "known:")] = j.res
		}
	}
	return pool.Queries, pool.TotalMS
}
