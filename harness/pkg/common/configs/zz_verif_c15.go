//go:build verif

package configs

import "github.com/apache/yunikorn-core/pkg/common/resources"

// C15: configuration validation is sound. Quantities range over a finite universe of strings
// (the parser itself is C18's subject); tree shape is concrete, everything else symbolic.

var vTypes = []string{"memory", "pods"}
var vQty = []string{"5", "10", "20"}
var vQtyVal = []int64{5, 10, 20}

// vResConf: sparse resource map over {memory, pods} with values from the universe; also returns the numeric view
func vResConf(name string) (map[string]string, [2]bool, [2]int64) {
	m := map[string]string{}
	var def [2]bool
	var val [2]int64
	for i := 0; i < 2; i++ {
		if vBool(name + "." + vTypes[i] + ".def") {
			k := vChoice(name+"."+vTypes[i], len(vQty))
			m[vTypes[i]] = vQty[k]
			def[i] = true
			val[i] = vQtyVal[k]
		}
	}
	return m, def, val
}

type vLim struct {
	who string // "user1", "*" or "" (no limit on this queue)
	def [2]bool
	val [2]int64
}

// S4: user limits within the same user's - or failing that the wildcard's - limit on every ancestor
func VerifC15_LimitResourceHierarchy() {
	vPanics(false)
	names := []string{"a", "b", "c"}
	var lim [3]vLim
	var qs [3]QueueConfig
	for l := 0; l < 3; l++ {
		qs[l] = QueueConfig{Name: names[l], Parent: l < 2}
		lim[l].who = vStr(names[l]+".who", "user1", "*", "")
		if lim[l].who != "" {
			m, def, val := vResConf(names[l] + ".max")
			lim[l].def, lim[l].val = def, val
			qs[l].Limits = []Limit{{Limit: "l", Users: []string{lim[l].who}, MaxResources: m}}
		}
		vSplit(names[l] + ".who")
	}
	qs[1].Queues = []QueueConfig{qs[2]}
	qs[0].Queues = []QueueConfig{qs[1]}
	root := QueueConfig{Name: "root", Parent: true, Queues: []QueueConfig{qs[0]}}
	err := checkLimitResource(root, map[string]*resources.Resource{}, map[string]*resources.Resource{})
	if err == nil {
		for l := 1; l < 3; l++ {
			if lim[l].who == "" {
				continue
			}
			for anc := 0; anc < l; anc++ {
				// the limit that governs this name on the ancestor: its own name, or (for a named user) the wildcard
				applies := lim[anc].who == lim[l].who || (lim[l].who == "user1" && lim[anc].who == "*")
				if !applies {
					continue
				}
				// a nearer ancestor with the same name takes precedence over a farther wildcard
				for i := 0; i < 2; i++ {
					if lim[l].def[i] && lim[anc].def[i] {
						vAssert(lim[l].val[i] <= lim[anc].val[i], "S4 an accepted limit is within the limit of the same user, or else the wildcard, on every ancestor")
					}
				}
			}
		}
	}
	vReach("end")
}

// S1: queue resources: max within every ancestor's max, guaranteed within max, children's guaranteed within the parent's
func VerifC15_QueueResourceHierarchy() {
	vPanics(false)
	names := []string{"p", "a", "b"}
	var mdef, gdef [3][2]bool
	var mval, gval [3][2]int64
	var qs [3]QueueConfig
	for l := 0; l < 3; l++ {
		var mm, gm map[string]string
		mm, mdef[l], mval[l] = vResConf(names[l] + ".max")
		gm, gdef[l], gval[l] = vResConf(names[l] + ".guaranteed")
		qs[l] = QueueConfig{Name: names[l], Parent: l == 0, Resources: Resources{Max: mm, Guaranteed: gm}}
	}
	qs[0].Queues = []QueueConfig{qs[1], qs[2]} // p{a,b}
	root := QueueConfig{Name: "root", Parent: true, Queues: []QueueConfig{qs[0]}}
	_, err := checkQueueResource(root, nil)
	if err == nil {
		for l := 0; l < 3; l++ {
			for i := 0; i < 2; i++ {
				if mdef[l][i] && gdef[l][i] {
					vAssert(gval[l][i] <= mval[l][i], "S1 guaranteed is within the queue's own maximum")
				}
				if l > 0 && mdef[l][i] && mdef[0][i] {
					vAssert(mval[l][i] <= mval[0][i], "S1 a queue's maximum is within its parent's maximum")
				}
			}
		}
		for i := 0; i < 2; i++ {
			var sum int64
			if gdef[1][i] {
				sum += gval[1][i]
			}
			if gdef[2][i] {
				sum += gval[2][i]
			}
			if gdef[0][i] && (gdef[1][i] || gdef[2][i]) {
				vAssert(sum <= gval[0][i], "S1 the children's guaranteed sum is within the parent's guaranteed")
			}
			if mdef[0][i] && (gdef[1][i] || gdef[2][i]) {
				vAssert(sum <= mval[0][i], "S1 the children's guaranteed sum is within the parent's maximum")
			}
		}
	}
	vReach("end")
}

// S2: max-applications non-increasing downwards and defined below a defined parent
func VerifC15_MaxApplicationsHierarchy() {
	vPanics(false)
	var ma [3]uint64
	names := []string{"p", "a", "b"}
	var qs [3]QueueConfig
	for l := 0; l < 3; l++ {
		ma[l] = uint64(vRange(names[l]+".maxapps", 0, 4))
		qs[l] = QueueConfig{Name: names[l], Parent: l < 2, MaxApplications: ma[l]}
	}
	qs[1].Queues = []QueueConfig{qs[2]}
	qs[0].Queues = []QueueConfig{qs[1]}
	root := QueueConfig{Name: "root", Parent: true, Queues: []QueueConfig{qs[0]}}
	err := checkQueueMaxApplications(root)
	if err == nil {
		for l := 1; l < 3; l++ {
			if ma[l-1] != 0 {
				vAssert(ma[l] != 0 && ma[l] <= ma[l-1], "S2 below a queue with max applications every child defines one that is not larger")
			}
		}
	}
	vReach("end")
}
