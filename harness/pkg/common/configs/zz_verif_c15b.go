//go:build verif

package configs

import "strings"

// D1: an accepted queue level has valid names that are unique the way the scheduler reads them (queue names are
// case-insensitive: every lookup and the queue objects lower-case them)
var vQNames = []string{"batch", "Batch", "BATCH", "prod", "Prod", "dev", "a.b", "", "x y"}
var vQValid = []bool{true, true, true, true, true, true, false, false, false}

func VerifC15_QueueNamesUniqueAndValid() {
	vPanics(false)
	n1 := vChoice("name1", len(vQNames))
	n2 := vChoice("name2", len(vQNames))
	n3 := vChoice("name3", len(vQNames))
	vSplit("name1")
	q := QueueConfig{Name: "root", Parent: true, Queues: []QueueConfig{
		{Name: "parent", Parent: true, Queues: []QueueConfig{{Name: vQNames[n1]}, {Name: vQNames[n2]}, {Name: vQNames[n3]}}},
	}}
	err := checkQueues(&q, 1)
	names := []string{vQNames[n1], vQNames[n2], vQNames[n3]}
	valid := vQValid[n1] && vQValid[n2] && vQValid[n3]
	unique := strings.ToLower(names[0]) != strings.ToLower(names[1]) && strings.ToLower(names[1]) != strings.ToLower(names[2]) && strings.ToLower(names[0]) != strings.ToLower(names[2])
	vAssert((err == nil) == (valid && unique), "D1 a queue level is accepted exactly when every name is valid and no two siblings have the same name ignoring case")
	vReach("end")
}
