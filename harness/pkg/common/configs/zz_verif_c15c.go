//go:build verif

package configs

// S2 on a tree with siblings: root -> [t -> t1, s -> s1]: the verdict must not depend on which subtree comes first
func VerifC15_MaxApplicationsSiblings() {
	vPanics(false)
	mk := func(name string) (QueueConfig, uint64, uint64) {
		top := uint64(vRange(name+".maxapps", 0, 3))
		leaf := uint64(vRange(name+"1.maxapps", 0, 3))
		return QueueConfig{Name: name, Parent: true, MaxApplications: top, Queues: []QueueConfig{{Name: name + "1", MaxApplications: leaf}}}, top, leaf
	}
	t, tTop, tLeaf := mk("t")
	s, sTop, sLeaf := mk("s")
	root := QueueConfig{Name: "root", Parent: true, Queues: []QueueConfig{t, s}}
	rootSwapped := QueueConfig{Name: "root", Parent: true, Queues: []QueueConfig{s, t}}
	err := checkQueueMaxApplications(root)
	err2 := checkQueueMaxApplications(rootSwapped)
	okT := tTop == 0 || (tLeaf != 0 && tLeaf <= tTop)
	okS := sTop == 0 || (sLeaf != 0 && sLeaf <= sTop)
	vAssert((err == nil) == (okT && okS), "S2 a tree is accepted exactly when in every subtree a child below a queue with max applications defines one that is not larger")
	vAssert((err == nil) == (err2 == nil), "S2 the verdict does not depend on the order of sibling queues")
	vReach("end")
}
