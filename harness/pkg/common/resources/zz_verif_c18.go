//go:build verif

package resources

import "math"

// ---- world ----

var vKeys = []string{"k0", "k1", "k2"}

func vNKeys() int {
	if vTier() > 0 {
		return 3
	}
	return 2
}

// vRes: nil-ness, presence of each key and each value are symbolic (full int64).
func vRes(name string) *Resource {
	if vBool(name + ".nil") {
		return nil
	}
	r := &Resource{Resources: map[string]Quantity{}}
	for i := 0; i < vNKeys(); i++ {
		k := vKeys[i]
		if vBool(name + "." + k + ".def") {
			r.Resources[k] = Quantity(vInt64(name + "." + k))
		}
	}
	return r
}

type vSnap struct {
	isNil bool
	def   [3]bool
	val   [3]int64
}

func vSnapOf(r *Resource) vSnap {
	var s vSnap
	if r == nil {
		s.isNil = true
		return s
	}
	for i := 0; i < 3; i++ {
		v, ok := r.Resources[vKeys[i]]
		s.def[i] = ok
		s.val[i] = int64(v)
	}
	return s
}

func vSame(a, b vSnap) bool {
	if a.isNil != b.isNil {
		return false
	}
	for i := 0; i < 3; i++ {
		if a.def[i] != b.def[i] {
			return false
		}
		if a.def[i] && a.val[i] != b.val[i] {
			return false
		}
	}
	return true
}

// value with "missing = 0"
func (s vSnap) get(i int) int64 {
	if s.isNil || !s.def[i] {
		return 0
	}
	return s.val[i]
}
func (s vSnap) has(i int) bool { return !s.isNil && s.def[i] }

// ---- reference arithmetic (independent formulation: compare against the limits before operating) ----

func specAdd(a, b int64) int64 {
	if b > 0 && a > math.MaxInt64-b {
		return math.MaxInt64
	}
	if b < 0 && a < math.MinInt64-b {
		return math.MinInt64
	}
	return a + b
}

func specSub(a, b int64) int64 {
	if b < 0 && a > math.MaxInt64+b {
		return math.MaxInt64
	}
	if b > 0 && a < math.MinInt64+b {
		return math.MinInt64
	}
	return a - b
}

// ---- A1 scalar kernels ----

func VerifC18_AddVal() {
	a, b := vInt64("a"), vInt64("b")
	r := addVal(Quantity(a), Quantity(b))
	vAssert(int64(r) == specAdd(a, b), "addVal is exact or saturates")
	vReach("end")
}

func VerifC18_SubVal() {
	a, b := vInt64("a"), vInt64("b")
	r := subVal(Quantity(a), Quantity(b))
	vKnown("C18-subval-minint64", b == math.MinInt64)
	vAssert(int64(r) == specSub(a, b), "subVal is exact or saturates")
	vReach("end")
}

// ---- A4 vector operations against component-wise references ----

func vNoAlias(out *Resource, ins ...*Resource) bool {
	// result must not share its map with an argument: writing to the result must not show in the argument
	if out == nil {
		return true
	}
	out.Resources["__probe"] = 1
	ok := true
	for _, in := range ins {
		if in != nil {
			if _, found := in.Resources["__probe"]; found {
				ok = false
			}
		}
	}
	delete(out.Resources, "__probe")
	return ok
}

func VerifC18_Add() {
	l, r := vRes("l"), vRes("r")
	pl, pr := vSnapOf(l), vSnapOf(r)
	out := Add(l, r)
	vAssert(out != nil, "Add never returns nil")
	vAssert(vSame(vSnapOf(l), pl) && vSame(vSnapOf(r), pr), "Add leaves its arguments unchanged")
	o := vSnapOf(out)
	for i := 0; i < vNKeys(); i++ {
		vAssert(o.has(i) == (pl.has(i) || pr.has(i)), "Add result has the union of types")
		vAssert(o.get(i) == specAdd(pl.get(i), pr.get(i)), "Add is component-wise exact or saturating")
	}
	vAssert(vNoAlias(out, l, r), "Add result shares no map with arguments")
	vReach("end")
}

func VerifC18_Sub() {
	l, r := vRes("l"), vRes("r")
	pl, pr := vSnapOf(l), vSnapOf(r)
	out := Sub(l, r)
	vAssert(out != nil, "Sub never returns nil")
	vAssert(vSame(vSnapOf(l), pl) && vSame(vSnapOf(r), pr), "Sub leaves its arguments unchanged")
	o := vSnapOf(out)
	for i := 0; i < vNKeys(); i++ {
		vAssert(o.has(i) == (pl.has(i) || pr.has(i)), "Sub result has the union of types")
		vKnown("C18-subval-minint64", pr.get(i) == math.MinInt64)
		vAssert(o.get(i) == specSub(pl.get(i), pr.get(i)), "Sub is component-wise exact or saturating")
	}
	vAssert(vNoAlias(out, l, r), "Sub result shares no map with arguments")
	vReach("end")
}

func vMin(a, b int64) int64 {
	if a < b {
		return a
	}
	return b
}
func vMax(a, b int64) int64 {
	if a > b {
		return a
	}
	return b
}

func VerifC18_OnlyExisting() {
	l, r := vRes("l"), vRes("r")
	pl, pr := vSnapOf(l), vSnapOf(r)
	s := SubOnlyExisting(l, r)
	a := AddOnlyExisting(l, r)
	vAssert(vSame(vSnapOf(l), pl) && vSame(vSnapOf(r), pr), "OnlyExisting variants leave their arguments unchanged")
	vAssert((s == nil) == (l == nil) && (a == nil) == (l == nil), "OnlyExisting: nil base gives nil, otherwise non-nil")
	so, ao := vSnapOf(s), vSnapOf(a)
	for i := 0; i < vNKeys(); i++ {
		vAssert(so.has(i) == pl.has(i) && ao.has(i) == pl.has(i), "OnlyExisting: exactly the types of the base")
		if pl.has(i) {
			vKnown("C18-subval-minint64", pr.get(i) == math.MinInt64)
			vAssert(so.get(i) == specSub(pl.get(i), pr.get(i)), "SubOnlyExisting is component-wise exact or saturating")
			vAssert(ao.get(i) == specAdd(pl.get(i), pr.get(i)), "AddOnlyExisting is component-wise exact or saturating")
		}
	}
	vAssert(vNoAlias(s, l, r) && vNoAlias(a, l, r), "OnlyExisting results share no map with arguments")
	vReach("end")
}

func VerifC18_SubNonNegative() {
	l, r := vRes("l"), vRes("r")
	pl, pr := vSnapOf(l), vSnapOf(r)
	e := SubEliminateNegative(l, r)
	e2, err := SubErrorNegative(l, r)
	vAssert(vSame(vSnapOf(l), pl) && vSame(vSnapOf(r), pr), "SubEliminateNegative leaves its arguments unchanged")
	vAssert(e != nil && e2 != nil, "SubEliminateNegative never returns nil")
	eo, eo2 := vSnapOf(e), vSnapOf(e2)
	anyNeg := false
	for i := 0; i < vNKeys(); i++ {
		want := specSub(pl.get(i), pr.get(i))
		if pr.has(i) && want < 0 {
			want = 0
			anyNeg = true
		}
		vAssert(eo.has(i) == (pl.has(i) || pr.has(i)), "SubEliminateNegative result has the union of types")
		vKnown("C18-subval-minint64", pr.get(i) == math.MinInt64)
		vAssert(eo.get(i) == want && eo2.get(i) == want, "SubEliminateNegative is exact, clamps negative results of subtracted types to 0")
	}
	known := false
	for i := 0; i < vNKeys(); i++ {
		if pr.get(i) == math.MinInt64 {
			known = true
		}
	}
	vKnown("C18-subval-minint64", known)
	vAssert((err != nil) == anyNeg, "SubErrorNegative reports an error exactly when a result was negative")
	vReach("end")
}

func VerifC18_InPlace() {
	l, r := vRes("l"), vRes("r")
	l2 := l.Clone()
	pl, pr := vSnapOf(l), vSnapOf(r)
	vAssert(vSame(vSnapOf(l2), pl) && vNoAlias(l2, l) && (l2 == nil) == (l == nil), "Clone is an independent exact copy")
	l.AddTo(r)
	l2.SubFrom(r)
	vAssert(vSame(vSnapOf(r), pr), "AddTo/SubFrom leave their argument unchanged")
	a, s := vSnapOf(l), vSnapOf(l2)
	vAssert(a.isNil == pl.isNil && s.isNil == pl.isNil, "AddTo/SubFrom keep a nil receiver nil")
	if l != nil {
		for i := 0; i < vNKeys(); i++ {
			vAssert(a.has(i) == (pl.has(i) || pr.has(i)) && s.has(i) == (pl.has(i) || pr.has(i)), "AddTo/SubFrom: union of types")
			vAssert(a.get(i) == specAdd(pl.get(i), pr.get(i)), "AddTo is component-wise exact or saturating")
			vKnown("C18-subval-minint64", pr.get(i) == math.MinInt64)
			vAssert(s.get(i) == specSub(pl.get(i), pr.get(i)), "SubFrom is component-wise exact or saturating")
		}
	}
	vReach("end")
}

func VerifC18_Prune() {
	l := vRes("l")
	pl := vSnapOf(l)
	l.Prune()
	o := vSnapOf(l)
	vAssert(o.isNil == pl.isNil, "Prune keeps nil-ness")
	for i := 0; i < vNKeys(); i++ {
		vAssert(o.has(i) == (pl.has(i) && pl.get(i) != 0), "Prune removes exactly the zero-valued types")
		vAssert(o.get(i) == pl.get(i), "Prune keeps the other values")
	}
	vReach("end")
}

func VerifC18_MinMax() {
	l, r := vRes("l"), vRes("r")
	pl, pr := vSnapOf(l), vSnapOf(r)
	mn := ComponentWiseMin(l, r)
	mo := ComponentWiseMinOnlyExisting(l, r)
	mx := ComponentWiseMax(l, r)
	mg := MergeIfNotPresent(l, r)
	vAssert(vSame(vSnapOf(l), pl) && vSame(vSnapOf(r), pr), "min/max/merge leave their arguments unchanged")
	n, o, x, g := vSnapOf(mn), vSnapOf(mo), vSnapOf(mx), vSnapOf(mg)
	vAssert(n.isNil == (pl.isNil && pr.isNil), "ComponentWiseMin is nil only for two nil arguments")
	vAssert(g.isNil == (pl.isNil && pr.isNil), "MergeIfNotPresent is nil only for two nil arguments")
	vAssert(o.isNil == pl.isNil, "ComponentWiseMinOnlyExisting is nil exactly for a nil left")
	vAssert(!x.isNil, "ComponentWiseMax never returns nil")
	for i := 0; i < vNKeys(); i++ {
		// min: a type missing on one side is unlimited there
		vAssert(n.has(i) == (pl.has(i) || pr.has(i)), "ComponentWiseMin: union of types")
		switch {
		case pl.has(i) && pr.has(i):
			vAssert(n.get(i) == vMin(pl.get(i), pr.get(i)), "ComponentWiseMin: minimum where both define the type")
		case pl.has(i):
			vAssert(n.get(i) == pl.get(i), "ComponentWiseMin: left value where only left defines the type")
		case pr.has(i):
			vAssert(n.get(i) == pr.get(i), "ComponentWiseMin: right value where only right defines the type")
		}
		vAssert(o.has(i) == pl.has(i), "ComponentWiseMinOnlyExisting: exactly the types of left")
		if pl.has(i) {
			if pr.has(i) {
				vAssert(o.get(i) == vMin(pl.get(i), pr.get(i)), "ComponentWiseMinOnlyExisting: minimum on shared types")
			} else {
				vAssert(o.get(i) == pl.get(i), "ComponentWiseMinOnlyExisting: left value on types right lacks")
			}
		}
		if !pl.isNil && !pr.isNil {
			vAssert(x.has(i) == (pl.has(i) || pr.has(i)), "ComponentWiseMax: union of types")
			vAssert(x.get(i) == vMax(pl.get(i), pr.get(i)), "ComponentWiseMax: maximum with missing = 0")
		}
		vAssert(g.has(i) == (pl.has(i) || pr.has(i)), "MergeIfNotPresent: union of types")
		if pl.has(i) {
			vAssert(g.get(i) == pl.get(i), "MergeIfNotPresent: left wins")
		} else {
			vAssert(g.get(i) == pr.get(i), "MergeIfNotPresent: right fills the gaps")
		}
	}
	vAssert(vNoAlias(mn, l, r) && vNoAlias(mo, l, r) && vNoAlias(mx, l, r) && vNoAlias(mg, l, r), "min/max/merge results share no map with arguments")
	vReach("end")
}

func VerifC18_FitIn(){
	l, s := vRes("l"), vRes("s")
	pl, ps := vSnapOf(l), vSnapOf(s)
	fit, fitU, fitA := l.FitIn(s), l.FitInMaxUndef(s), l.FitInActual(s)
	vAssert(vSame(vSnapOf(l), pl) && vSame(vSnapOf(s), ps), "FitIn variants leave their arguments unchanged")
	wf, wu, wa := true, true, true
	for i := 0; i < vNKeys(); i++ {
		if !ps.has(i) {
			continue
		}
		// FitIn: missing in larger = 0, negative larger = 0
		if ps.get(i) > vMax(0, pl.get(i)) {
			wf = false
		}
		if pl.has(i) {
			if ps.get(i) > vMax(0, pl.get(i)) {
				wu = false
			}
			if ps.get(i) > pl.get(i) {
				wa = false
			}
		}
	}
	vAssert(fit == wf, "FitIn: every requested type fits, missing type = 0, negative capacity = 0")
	vAssert(fitU == wu, "FitInMaxUndef: types the larger lacks are unlimited")
	vAssert(fitA == wa, "FitInActual: actual values on the types the larger defines")
	vReach("end")
}

func VerifC18_Compare() {
	l, r := vRes("l"), vRes("r")
	pl, pr := vSnapOf(l), vSnapOf(r)
	sgt, sge, eq, deq := StrictlyGreaterThan(l, r), StrictlyGreaterThanOrEquals(l, r), Equals(l, r), DeepEquals(l, r)
	vAssert(vSame(vSnapOf(l), pl) && vSame(vSnapOf(r), pr), "comparisons leave their arguments unchanged")
	allGE, anyNE, sameDef := true, false, true
	for i := 0; i < vNKeys(); i++ {
		if pl.get(i) < pr.get(i) {
			allGE = false
		}
		if pl.get(i) != pr.get(i) {
			anyNE = true
		}
		if pl.has(i) != pr.has(i) {
			sameDef = false
		}
	}
	vAssert(sge == allGE, "StrictlyGreaterThanOrEquals: every type >= with missing = 0")
	vAssert(sgt == (allGE && anyNE), "StrictlyGreaterThan: every type >= and one differs, missing = 0")
	if l != nil && r != nil {
		vAssert(eq == !anyNE, "Equals: same values with missing = 0")
		vAssert(deq == (!anyNE && sameDef), "DeepEquals: same types and same values")
	} else {
		vAssert(eq == (l == nil && r == nil) && deq == (l == nil && r == nil), "Equals/DeepEquals with nil: only nil equals nil")
	}
	vReach("end")
}

func VerifC18_Unary() {
	l, r := vRes("l"), vRes("r")
	pl, pr := vSnapOf(l), vSnapOf(r)
	z, em, neg, gz, ma := IsZero(l), l.IsEmpty(), l.HasNegativeValue(), StrictlyGreaterThanZero(l), l.MatchAny(r)
	vAssert(vSame(vSnapOf(l), pl) && vSame(vSnapOf(r), pr), "predicates leave their arguments unchanged")
	allZero, none, anyNeg, anyPos, share := true, true, false, false, false
	for i := 0; i < vNKeys(); i++ {
		if pl.get(i) != 0 {
			allZero = false
		}
		if pl.has(i) {
			none = false
			if pr.has(i) {
				share = true
			}
		}
		if pl.get(i) < 0 {
			anyNeg = true
		}
		if pl.get(i) > 0 {
			anyPos = true
		}
	}
	vAssert(z == allZero, "IsZero: nil, empty or all zero")
	vAssert(em == none, "IsEmpty: nil or no types")
	vAssert(neg == anyNeg, "HasNegativeValue: some value below zero")
	vAssert(gz == (anyPos && !anyNeg), "StrictlyGreaterThanZero: no negative and one positive value")
	vAssert(ma == share, "MatchAny: the two share a defined type")
	vReach("end")
}

// ---- A2 mulVal / Multiply: exact 128-bit reference ----

func specMul(a, b int64) int64 {
	hi := vMulHi(a, b) // high word of the exact 128-bit product
	lo := a * b         // low word
	// the product fits int64 iff the high word is the sign extension of the low word
	if (hi == 0 && lo >= 0) || (hi == -1 && lo < 0) {
		return lo
	}
	if hi < 0 {
		return math.MinInt64
	}
	return math.MaxInt64
}

func VerifC18_MulVal() {
	a, b := vInt64("a"), vInt64("b")
	r := mulVal(Quantity(a), Quantity(b))
	vAssert(int64(r) == specMul(a, b), "mulVal is exact or saturates")
	vReach("end")
}

func VerifC18_Multiply() {
	l := vRes("l")
	ratio := vInt64("ratio")
	pl := vSnapOf(l)
	out := Multiply(l, ratio)
	vAssert(out != nil, "Multiply never returns nil")
	vAssert(vSame(vSnapOf(l), pl), "Multiply leaves its argument unchanged")
	o := vSnapOf(out)
	for i := 0; i < vNKeys(); i++ {
		if ratio != 0 {
			vAssert(o.has(i) == pl.has(i), "Multiply keeps exactly the types of the base")
		}
		vAssert(o.get(i) == specMul(pl.get(i), ratio), "Multiply is component-wise exact or saturating")
	}
	vAssert(vNoAlias(out, l), "Multiply result shares no map with its argument")
	vReach("end")
}

// ---- A8 quantity parsing: boundary numbers x every suffix, real parser (math/big abstracted exactly for Mul/IsInt64) ----

var vNums = []string{"0", "1", "7", "8", "9", "10", "1000", "9007", "9008", "9223", "9224", "9223372036854775", "9223372036854776", "9223372036854775807", "9223372036854775808", "99999999999999999999"}
var vNumVal = []int64{0, 1, 7, 8, 9, 10, 1000, 9007, 9008, 9223, 9224, 9223372036854775, 9223372036854776, math.MaxInt64, -1, -1} // -1: does not fit int64
var vSuf = []string{"", "m", "k", "M", "G", "T", "P", "E", "Ki", "Mi", "Gi", "Ti", "Pi", "Ei", "x", "KI"}
var vSufMul = []int64{1, 1, 1000, 1000000, 1000000000, 1000000000000, 1000000000000000, 1000000000000000000, 1 << 10, 1 << 20, 1 << 30, 1 << 40, 1 << 50, 1 << 60, 0, 0} // 0: not a suffix

func VerifC18_ParseQuantity() {
	ni := vChoice("num", len(vNums))
	si := vChoice("suffix", len(vSuf))
	milli := vBool("milli")
	vSplit("suffix")
	var s string
	var n, mul int64
	for i := range vNums {
		for j := range vSuf {
			if ni == i && si == j {
				s, n, mul = vNums[i]+vSuf[j], vNumVal[i], vSufMul[j]
			}
		}
	}
	var got Quantity
	var err error
	if milli {
		got, err = ParseVCore(s)
	} else {
		got, err = ParseQuantity(s)
	}
	// reference: exact product with overflow detection by division
	ok := n >= 0 && mul != 0
	if vSuf[0] == "" && si == 1 && !milli {
		ok = false // 'm' only for vcores
	}
	want := int64(0)
	if ok && n != 0 {
		scale := mul
		if milli && si != 1 {
			if scale > math.MaxInt64/1000 {
				ok = false
			} else {
				scale *= 1000
			}
		}
		if ok && scale > math.MaxInt64/n {
			ok = false
		}
		if ok {
			want = n * scale
		}
	}
	vAssert((err == nil) == ok, "P a quantity is accepted exactly when number, suffix and the scaled value are valid and fit int64")
	if ok {
		vAssert(int64(got) == want, "P an accepted quantity is the exact value with its SI / binary suffix (milli-units for vcores)")
	}
	vReach("end")
}

// ---- A3 mulValRatio: no wrap at the int64 boundaries (floating point theory) ----

func vSignOK(v int64, ratio float64, r Quantity) bool {
	return !(v > 0 && ratio > 0 && r < 0) && !(v < 0 && ratio < 0 && r < 0) && !(v > 0 && ratio < 0 && r > 0) && !(v < 0 && ratio > 0 && r > 0)
}

var vRatios = []float64{1, -1, 2, -2, 0.5, -0.5, 1024, -1024}
var vBases = []int64{1, -1, math.MaxInt64, math.MinInt64, 1 << 62, -(1 << 62), 1 << 53, -(1 << 53)}

// every int64 base, ratio a (signed) power of two: the F2 shape MaxInt64 x 1.0 and MinInt64 x -1.0 lives here
func VerifC18_MulValRatioSign() {
	v := vInt64("v")
	ri := vChoice("ratio", len(vRatios))
	vSplit("ratio")
	ratio := vRatios[ri]
	r := mulValRatio(Quantity(v), ratio)
	vAssert(vSignOK(v, ratio, r), "A3 multiplying by a ratio never flips the sign (no wrap-around at the int64 limits)")
	vReach("end")
}

// every non-NaN float64 ratio, base one of the boundary values (powers of two and the int64 extremes)
func VerifC18_MulValRatioSignAnyRatio() {
	bi := vChoice("base", len(vBases))
	vSplit("base")
	v := vBases[bi]
	ratio := vFloat64("ratio")
	vAssume(ratio == ratio) // not NaN
	r := mulValRatio(Quantity(v), ratio)
	vAssert(vSignOK(v, ratio, r), "A3 multiplying a boundary value by any ratio never flips the sign")
	vReach("end")
}
