//go:build verif

package events

import "github.com/apache/yunikorn-scheduler-interface/lib/go/si"

// C20: ring buffer representation invariant (RBInv), step lemmas for Add / Resize,
// range-query specification for arbitrary (start,count).

func vMaxCap() int {
	if vTier() > 0 {
		return 6
	}
	return 4
}

const vIDLimit = uint64(1) << 62

// vRB builds a ring buffer in an arbitrary state satisfying RBInv with the given (concrete) capacity.
// Event with id j is tagged TimestampNano == j.
func vRB(capacity uint64) *eventRingBuffer {
	e := &eventRingBuffer{capacity: capacity, events: make([]*si.EventRecord, capacity)}
	e.id = vUint64("id")
	e.lowestId = vUint64("low")
	e.resizeOffset = vUint64("off")
	vAssume(e.id < vIDLimit)
	vAssume(e.lowestId <= e.id && e.id-e.lowestId <= capacity)
	vAssume(e.resizeOffset <= e.lowestId)
	n := e.id - e.lowestId
	e.full = n == capacity
	// not full ⇒ nothing was overwritten since the last resize
	vAssume(e.full || e.resizeOffset == e.lowestId)
	e.head = (e.id - e.resizeOffset) % capacity
	for k := uint64(0); k < capacity; k++ {
		if k < n {
			j := e.lowestId + k
			e.events[(j-e.resizeOffset)%capacity] = &si.EventRecord{TimestampNano: int64(j)}
		}
	}
	return e
}

// rbInv: the representation invariant, including cell contents.
func rbInv(e *eventRingBuffer) bool {
	if e.capacity < 1 || uint64(len(e.events)) != e.capacity {
		return false
	}
	if e.lowestId > e.id || e.id-e.lowestId > e.capacity || e.resizeOffset > e.lowestId {
		return false
	}
	n := e.id - e.lowestId
	if e.full != (n == e.capacity) {
		return false
	}
	if !e.full && e.resizeOffset != e.lowestId {
		return false
	}
	if e.head != (e.id-e.resizeOffset)%e.capacity {
		return false
	}
	ok := true
	for k := uint64(0); k < e.capacity; k++ {
		if k < n {
			j := e.lowestId + k
			ev := e.events[(j-e.resizeOffset)%e.capacity]
			if ev == nil || ev.TimestampNano != int64(j) {
				ok = false
			}
		}
	}
	return ok
}

func VerifC20_New() {
	for c := 1; c <= vMaxCap(); c++ {
		e := newEventRingBuffer(uint64(c))
		vAssert(rbInv(e) && e.id == 0 && e.lowestId == 0, "E0 a new buffer satisfies the invariant and is empty")
	}
	vReach("end")
}

func VerifC20_Add() {
	c := uint64(vChoice("cap", vMaxCap()) + 1)
	vSplit("cap") // one query per capacity: the position arithmetic is modulo the capacity
	for cc := uint64(1); cc <= uint64(vMaxCap()); cc++ {
		if c != cc {
			continue
		}
		e := vRB(cc)
		id0, low0 := e.id, e.lowestId
		n0 := id0 - low0
		e.Add(&si.EventRecord{TimestampNano: int64(id0)})
		vAssert(e.id == id0+1, "E1 the new event gets the next consecutive id")
		vAssert(rbInv(e), "E1 Add preserves the invariant (every retained id sits in its cell)")
		if n0 == cc {
			vAssert(e.lowestId == low0+1, "E1 a full buffer drops exactly the oldest event")
		} else {
			vAssert(e.lowestId == low0, "E1 a non-full buffer keeps everything")
		}
	}
	vReach("end")
}

func VerifC20_Resize() {
	c := uint64(vChoice("cap", vMaxCap()) + 1)
	vSplit("cap") // one query per capacity: the position arithmetic is modulo the capacity
	m := uint64(vChoice("newcap", vMaxCap()) + 1)
	for cc := uint64(1); cc <= uint64(vMaxCap()); cc++ {
		for mm := uint64(1); mm <= uint64(vMaxCap()); mm++ {
			if c != cc || m != mm {
				continue
			}
			e := vRB(cc)
			id0, low0 := e.id, e.lowestId
			n0 := id0 - low0
			e.Resize(mm)
			vAssert(e.capacity == mm && e.id == id0, "E2 Resize sets the capacity and keeps the id counter")
			vAssert(rbInv(e), "E2 Resize preserves the invariant (every retained id sits in its cell)")
			keep := n0
			if mm < keep {
				keep = mm
			}
			vAssert(e.id-e.lowestId == keep, "E2 Resize keeps the most recent min(n, newSize) events")
		}
	}
	vReach("end")
}

func VerifC20_GetEventsFromID() {
	vSliceBound(2*vMaxCap() + 2)
	c := uint64(vChoice("cap", vMaxCap()) + 1)
	vSplit("cap") // one query per capacity: the position arithmetic is modulo the capacity
	for cc := uint64(1); cc <= uint64(vMaxCap()); cc++ {
		if c != cc {
			continue
		}
		e := vRB(cc)
		s, cnt := vUint64("start"), vUint64("count")
		id0, low0 := e.id, e.lowestId
		res, lo, hi := e.GetEventsFromID(s, cnt)
		vAssert(lo == low0, "E3 reports the lowest available id")
		if id0 == 0 {
			vAssert(hi == 0, "E3 reports last id 0 for an empty history")
		} else {
			vAssert(hi == id0-1, "E3 reports the newest id")
		}
		if s < low0 || s >= id0 {
			vAssert(res == nil, "E3 a start id outside the available range returns nothing")
		} else {
			want := id0 - s
			if cnt < want {
				want = cnt
			}
			vAssert(uint64(len(res)) == want, "E3 returns exactly min(count, newest-start+1) events")
			for i := uint64(0); i < cc; i++ {
				if i < want && i < uint64(len(res)) {
					vAssert(res[i] != nil && res[i].TimestampNano == int64(s+i), "E3 events come in id order start, start+1, ... without gaps or repeats")
				}
			}
		}
		vAssert(rbInv(e), "E3 a query does not change the buffer")
	}
	vReach("end")
}

func VerifC20_GetRecentEvents() {
	vSliceBound(2*vMaxCap() + 2)
	c := uint64(vChoice("cap", vMaxCap()) + 1)
	vSplit("cap") // one query per capacity: the position arithmetic is modulo the capacity
	for cc := uint64(1); cc <= uint64(vMaxCap()); cc++ {
		if c != cc {
			continue
		}
		e := vRB(cc)
		cnt := vUint64("count")
		id0, low0 := e.id, e.lowestId
		n0 := id0 - low0
		res := e.GetRecentEvents(cnt)
		want := n0
		if cnt < want {
			want = cnt
		}
		vAssert(uint64(len(res)) == want, "E4 returns the last min(count, stored) events")
		for i := uint64(0); i < cc; i++ {
			if i < want && i < uint64(len(res)) {
				vAssert(res[i] != nil && res[i].TimestampNano == int64(id0-want+i), "E4 the most recent events in id order")
			}
		}
	}
	vReach("end")
}

// E5 event store: a collected batch never exceeds the size in force when the batch was started,
// idx never passes len(events), nothing below the cap is lost.
func VerifC20_EventStore() {
	maxSize := uint64(3)
	if vTier() > 0 {
		maxSize = 4
	}
	vSliceBound(int(maxSize) + 1)
	sz := uint64(vChoice("size", int(maxSize)) + 1)
	for ss := uint64(1); ss <= maxSize; ss++ {
		if sz != ss {
			continue
		}
		es := newEventStore(ss)
		// arbitrary fill level
		n := uint64(vChoice("n", int(maxSize)+2))
		stored := uint64(0)
		for k := uint64(0); k < maxSize+2; k++ {
			if k < n {
				es.Store(&si.EventRecord{TimestampNano: int64(k)})
				if stored < ss {
					stored++
				}
			}
		}
		vAssert(es.CountStoredEvents() == stored, "E5 the store keeps the first size events and drops the rest")
		newSize := uint64(vChoice("newsize", int(maxSize)) + 1)
		es.SetStoreSize(newSize)
		if vBool("size.reapplied") {
			// every configuration reload applies the store size again, changed or not, possibly before the next collect
			es.SetStoreSize(newSize)
		}
		batch := es.CollectEvents()
		vAssert(uint64(len(batch)) == stored && uint64(len(batch)) <= ss, "E5 a batch never exceeds the size in force when it was started")
		for k := uint64(0); k < ss; k++ {
			if k < uint64(len(batch)) {
				vAssert(batch[k] != nil && batch[k].TimestampNano == int64(k), "E5 the batch holds the stored events in order")
			}
		}
		vAssert(es.CountStoredEvents() == 0 && uint64(len(es.events)) == newSize, "E5 after collection the store is empty and has the new size")
		// second batch under the new size
		for k := uint64(0); k < maxSize+1; k++ {
			es.Store(&si.EventRecord{TimestampNano: int64(100 + k)})
		}
		b2 := es.CollectEvents()
		vAssert(uint64(len(b2)) == newSize, "E5 the next batch is capped by the new size")
	}
	vReach("end")
}
