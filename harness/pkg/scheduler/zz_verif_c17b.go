//go:build verif

package scheduler

import (
	"github.com/apache/yunikorn-core/pkg/common/configs"
	"github.com/apache/yunikorn-core/pkg/common/security"
	"github.com/apache/yunikorn-core/pkg/scheduler/objects"
)

// A2: the ACLs that decide placement are those of the latest configuration: after a reload a user passes the
// submit/admin check of a queue exactly when the ACL now configured on that queue (or an ancestor) admits the user
func VerifC17_ACLFollowsLatestConfig() {
	vPanics(false)
	vUnwind(40)
	s1 := vStr("submit1", "", "*", "u1", "u2")
	a1 := vStr("admin1", "", "*", "u1")
	s2 := vStr("submit2", "", "*", "u1", "u2")
	a2 := vStr("admin2", "", "*", "u1")
	vSplit("submit1")
	vSplit("submit2")
	root, err := objects.NewConfiguredQueue(configs.QueueConfig{Name: "root", Parent: true}, nil, false, nil)
	vAssert(err == nil, "world: root created")
	q, err2 := objects.NewConfiguredQueue(configs.QueueConfig{Name: "restricted", SubmitACL: s1, AdminACL: a1}, root, false, nil)
	vAssert(err2 == nil, "world: queue created")
	_, err3 := q.ApplyConf(configs.QueueConfig{Name: "restricted", SubmitACL: s2, AdminACL: a2})
	vAssert(err3 == nil, "world: reload applied")
	user := vStr("user", "u1", "u2")
	vSplit("user")
	ug := security.UserGroup{User: user, Groups: []string{"g1"}}
	allows := func(acl string) bool {
		switch acl {
		case "*":
			return true
		case "u1":
			return user == "u1"
		case "u2":
			return user == "u2"
		}
		return false
	}
	vAssert(q.CheckSubmitAccess(ug) == (allows(s2) || allows(a2)), "A2 after a reload submit access follows the submit and admin ACL of the latest configuration")
	vAssert(q.CheckAdminAccess(ug) == allows(a2), "A2 after a reload admin access follows the admin ACL of the latest configuration")
	vReach("end")
}
