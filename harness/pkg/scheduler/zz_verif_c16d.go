//go:build verif

package scheduler

import (
	"github.com/apache/yunikorn-core/pkg/common/configs"
	"github.com/apache/yunikorn-core/pkg/common/security"
)

// R5: after a reload the child template in force on a parent queue is the one of the latest configuration, whatever
// the queue was before (leaf, parent without template, parent with another template): a queue a placement rule
// creates below it afterwards gets the same maximum and max-applications as on a partition that only ever saw C2.
func VerifC16_ReloadLoadsChildTemplate() {
	vPanics(false)
	vUnwind(40)
	mk := func(prefix string, forceParent bool) configs.PartitionConfig {
		par := configs.QueueConfig{Name: "par"}
		if forceParent || vBool(prefix+".parent") {
			par.Parent = true
			if vBool(prefix + ".tmpl") {
				par.ChildTemplate = configs.ChildTemplate{
					MaxApplications: uint64(vRange(prefix+".tapps", 0, 3)),
					Resources:       configs.Resources{Max: map[string]string{"memory": vStr(prefix+".tmax", "5", "10", "20")}},
				}
			}
		}
		return configs.PartitionConfig{
			Name: "default",
			Queues: []configs.QueueConfig{{
				Name: "root", Parent: true, SubmitACL: "*",
				Queues: []configs.QueueConfig{par},
			}},
			PlacementRules: []configs.PlacementRule{{Name: "provided", Create: true}},
		}
	}
	c1 := mk("c1", false)
	c2 := mk("c2", true)
	probe := func(pc *PartitionContext) (int64, uint64) {
		// the call the partition makes for a queue name a placement rule produced (the rule itself is C17's subject)
		q, qerr := pc.createQueue("root.par.dyn", security.UserGroup{User: "u1", Groups: []string{"g1"}})
		vAssert(qerr == nil && q != nil, "world: rule-created queue exists")
		mem := int64(-1)
		if mr := q.GetMaxResource(); mr != nil {
			if v, ok := mr.Resources["memory"]; ok {
				mem = int64(v)
			}
		}
		return mem, q.GetMaxApps()
	}
	pc1, err1 := newPartitionContext(c1, "rm-1", nil, false)
	vAssert(err1 == nil && pc1 != nil, "world: partition created")
	rerr := pc1.updatePartitionDetails(c2)
	vAssert(rerr == nil, "world: reload accepted")
	m1, a1 := probe(pc1)
	pc2, err2 := newPartitionContext(c2, "rm-1", nil, false)
	vAssert(err2 == nil && pc2 != nil, "world: fresh partition created")
	m2, a2 := probe(pc2)
	vAssert(m1 == m2 && a1 == a2, "R5 a queue created by a rule after the reload gets the child template of the latest configuration")
	vReach("end")
}
