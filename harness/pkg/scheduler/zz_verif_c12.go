//go:build verif

package scheduler

import "github.com/apache/yunikorn-core/pkg/scheduler/objects"

// C12 R1/R4: product harness — a recovered allocation (RM reports it as already bound) ends with the same
// node / queue / application totals as the same allocation scheduled live, and recovery ignores the node's free space.
func VerifC12_RecoveredEqualsLive() {
	vPanics(false)
	vUnwind(40)
	res := vResPos("alloc")
	// world A: live — ask arrives, scheduler binds it
	a := vPartition(1)
	appA := a.addApp("app-1")
	_, _, errA := a.pc.UpdateAllocation(objects.NewAllocationFromSI(vSIAlloc("alloc-1", "app-1", "", res)))
	vAssert(errA == nil, "R5 an outstanding ask is accepted")
	result := a.pc.tryAllocate()
	// world B: same capacity, the allocation is replayed as already bound to node-1
	b := vPartition(1)
	appB := b.addApp("app-1")
	_, created, errB := b.pc.UpdateAllocation(objects.NewAllocationFromSI(vSIAlloc("alloc-1", "app-1", "node-1", res)))
	vAssert(errB == nil && created, "R4 a recovered allocation is accepted regardless of free capacity")
	sb := b.snap(appB)
	for i := 0; i < vNK(); i++ {
		vAssert(sb.nodeAlloc[0][i] == rv(res, i) && sb.leaf[i] == rv(res, i) && sb.root[i] == rv(res, i) && sb.appAlloc[i] == rv(res, i), "R1 a recovered allocation is booked on node, queue chain and application")
		vAssert(sb.appPend[i] == 0 && sb.leafPend[i] == 0, "R1 a recovered allocation leaves nothing pending")
	}
	if result != nil {
		sa := a.snap(appA)
		vAssert(sa == sb, "R1 recovery rebuilds exactly the accounting the live scheduler had")
	}
	vReach("end")
}
