//go:build verif

package scheduler

import (
	"github.com/apache/yunikorn-core/pkg/scheduler/objects"
	"github.com/apache/yunikorn-scheduler-interface/lib/go/si"
)

// C03 at partition level: conservation across application, queue chain and nodes for the operations that
// compose several ledgers, from the state "cross-node placeholder swap in flight" (built through the real code).

type vSwapW struct {
	w        *vPW
	app      *objects.Application
	ph, real *objects.Allocation
	inflight bool
}

// vSwapWorld: placeholder ask-ph bound on node-1 (recovered), real ask ask-real outstanding; the shim refuses
// node-1 for the real ask, so tryPlaceholderAllocate places it on node-2: swap in flight across nodes.
func vSwapWorld() *vSwapW {
	s := &vSwapW{w: vPartition(2)}
	w := s.w
	s.app = w.addGangApp("app-1")
	phRes, realRes := vResPos("ph"), vResPos("real")
	for i := 0; i < vNK(); i++ {
		vAssume(rv(realRes, i) <= rv(phRes, i)) // a real ask no larger than its placeholder
	}
	s.ph = objects.NewAllocationFromSI(vSIGang("ask-ph", "app-1", "node-1", "tg-1", true, phRes))
	_, _, err := w.pc.UpdateAllocation(s.ph)
	vAssert(err == nil, "world: placeholder recovered")
	s.real = objects.NewAllocationFromSI(vSIGang("ask-real", "app-1", "", "tg-1", false, realRes))
	_, _, err = w.pc.UpdateAllocation(s.real)
	vAssert(err == nil, "world: real ask accepted")
	vRegisterDeny("ask-real|node-1")
	res := w.pc.tryPlaceholderAllocate()
	s.inflight = res != nil
	return s
}

// conservation: leaf = application (real + placeholder), root = leaf, nodes = root + real halves in flight
func (s *vSwapW) conserved(inflightReal *objects.Allocation) bool {
	w := s.w
	ok := true
	leaf := w.pc.GetQueue("root.default")
	app := w.pc.getApplication("app-1")
	for i := 0; i < vNK(); i++ {
		var appTot int64
		if app != nil {
			appTot = rv(app.GetAllocatedResource(), i) + rv(app.GetPlaceholderResource(), i)
		}
		if rv(leaf.GetAllocatedResource(), i) != appTot || rv(w.pc.root.GetAllocatedResource(), i) != appTot {
			ok = false
		}
		var nodes int64
		for _, n := range w.pc.GetNodes() {
			nodes += rv(n.GetAllocatedResource(), i)
		}
		if inflightReal != nil {
			nodes -= rv(inflightReal.GetAllocatedResource(), i)
		}
		if nodes != appTot {
			ok = false
		}
		if rv(leaf.GetAllocatedResource(), i) < 0 || rv(leaf.GetPendingResource(), i) < 0 {
			ok = false
		}
	}
	// every allocation on a node belongs to the live application and is listed by it (or is the in-flight real half)
	for _, n := range w.pc.GetNodes() {
		for _, a := range n.GetYunikornAllocations() {
			if app == nil {
				ok = false
				continue
			}
			listed := false
			for _, b := range app.GetAllAllocations() {
				if b == a {
					listed = true
				}
			}
			if !listed && a != inflightReal {
				ok = false
			}
		}
	}
	return ok
}

func VerifC03_P_SwapInFlight() {
	vPanics(false)
	vUnwind(40)
	s := vSwapWorld()
	vAssume(s.inflight)
	vAssert(s.real.GetNodeID() == "node-2" && s.ph.IsReleased(), "world: cross-node swap in flight")
	vAssert(s.conserved(s.real), "I with a cross-node swap in flight the books agree (nodes carry only the extra real half)")
	op := vChoice("op", 4)
	vSplit("op")
	switch op {
	case 0: // the shim confirms the swap
		s.w.pc.removeAllocation(&si.AllocationRelease{ApplicationID: "app-1", AllocationKey: "ask-ph", TerminationType: si.TerminationType_PLACEHOLDER_REPLACED})
		vAssert(s.conserved(nil), "I after the shim confirmed the swap the books agree and reflect the real allocation")
		vAssert(s.w.pc.GetNode("node-1").GetAllocation("ask-ph") == nil && s.w.pc.GetNode("node-2").GetAllocation("ask-real") == s.real, "G2 after the confirmation the placeholder is gone and the real allocation is bound")
	case 1: // the placeholder's node goes away before the confirmation
		s.w.pc.removeNode("node-1")
		vAssert(s.conserved(nil), "I removing the placeholder's node during a cross-node swap leaves consistent books (queues shrink to the real size)")
	case 2: // the real allocation's node goes away before the confirmation
		s.w.pc.removeNode("node-2")
		vAssert(s.conserved(nil), "I removing the real allocation's node during a cross-node swap leaves consistent books")
	case 3: // the application is removed
		vKnown("C03-remove-app-inflight-swap", true)
		s.w.pc.removeApplication("app-1")
		vAssert(s.conserved(nil), "I removing the application during a cross-node swap leaves nothing of it on any node or queue")
	}
	vReach("end")
}
