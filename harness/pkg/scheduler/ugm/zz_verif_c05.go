//go:build verif

package ugm

import (
	"github.com/apache/yunikorn-core/pkg/common/configs"
	"github.com/apache/yunikorn-core/pkg/common/resources"
	"github.com/apache/yunikorn-core/pkg/common/security"
)

// C05: user and group quotas are enforced and follow the active configuration (real ugm manager)

var vUser = security.UserGroup{User: "u1", Groups: []string{"g1"}}

var vQtyS = []string{"10", "20", "50"}
var vQtyV = []int64{10, 20, 50}

// vLimitConf: a limit for user u1 on root.a with symbolic kinds: max resources (memory), max applications, or both
func vLimitConf(prefix string) (configs.QueueConfig, bool, int64, uint64) {
	hasRes := vBool(prefix + ".hasres")
	var maxRes map[string]string
	var lim int64
	if hasRes {
		k := vChoice(prefix+".mem", len(vQtyS))
		maxRes = map[string]string{"memory": vQtyS[k]}
		lim = vQtyV[k]
	}
	maxApps := uint64(vRange(prefix+".maxapps", 0, 2))
	vAssume(hasRes || maxApps > 0) // a limit entry defines at least one kind
	a := configs.QueueConfig{Name: "a", Limits: []configs.Limit{{Limit: "l", Users: []string{"u1"}, MaxResources: maxRes, MaxApplications: maxApps}}}
	root := configs.QueueConfig{Name: "root", Parent: true, Queues: []configs.QueueConfig{a}}
	return root, hasRes, lim, maxApps
}

func vMem(v int64) *resources.Resource {
	return resources.NewResourceFromMap(map[string]resources.Quantity{"memory": resources.Quantity(v)})
}

// after a user drained completely, the configured limit is still in force (headroom and application gate)
func VerifC05_LimitSurvivesDrain() {
	vPanics(false)
	vUnwind(40)
	m = newManager() // the trackers consult the package-level manager
	conf, hasRes, lim, maxApps := vLimitConf("c")
	vSplit("c.hasres")
	err := m.UpdateConfig(conf, "root")
	vAssert(err == nil, "world: limits accepted")
	use := vRange("use", 1, 10)
	m.IncreaseTrackedResource("root.a", "app-1", vMem(use), vUser)
	m.DecreaseTrackedResource("root.a", "app-1", vMem(use), vUser, true)
	h := m.Headroom("root.a", "app-2", vUser)
	if hasRes {
		vAssert(h != nil && int64(h.Resources["memory"]) == lim, "U2 after the user drained, the headroom is the configured limit again")
	} else {
		vAssert(h == nil || len(h.Resources) == 0, "U2 without a resource limit the headroom is unlimited")
	}
	// admit applications up to the configured maximum
	ok1 := m.CanRunApp("root.a", "app-2", vUser)
	vAssert(ok1, "U3 an application is admitted while the user runs none")
	m.IncreaseTrackedResource("root.a", "app-2", vMem(1), vUser)
	ok2 := m.CanRunApp("root.a", "app-3", vUser)
	if maxApps == 1 {
		vAssert(!ok2, "U3 no application is admitted beyond the configured maximum number of applications")
	}
	if maxApps == 0 || maxApps == 2 {
		vAssert(ok2, "U3 an application within the configured maximum number of applications is admitted")
	}
	vReach("end")
}

// usage tracked per user equals what was added minus what was removed; headroom = limit - usage; fits headroom => stays within the limit
func VerifC05_UsageAndHeadroom() {
	vPanics(false)
	vUnwind(40)
	m = newManager() // the trackers consult the package-level manager
	conf, hasRes, lim, _ := vLimitConf("c")
	vAssume(hasRes)
	err := m.UpdateConfig(conf, "root")
	vAssert(err == nil, "world: limits accepted")
	u1 := vRange("use1", 1, 60)
	m.IncreaseTrackedResource("root.a", "app-1", vMem(u1), vUser)
	h := m.Headroom("root.a", "app-1", vUser)
	vAssert(h != nil && int64(h.Resources["memory"]) == lim-u1, "U2 the headroom is the limit minus the tracked usage")
	ask := vRange("ask", 1, 60)
	if h.FitInMaxUndef(vMem(ask)) {
		m.IncreaseTrackedResource("root.a", "app-1", vMem(ask), vUser)
		got := m.GetUserResources("u1")
		vAssert(got != nil && int64(got.Resources["memory"]) == u1+ask, "U1 tracked usage is the sum of what was added")
		if u1 <= lim {
			vAssert(u1+ask <= lim, "U2 an ask that fits the headroom never takes the user above the configured maximum")
		}
	}
	vReach("end")
}
