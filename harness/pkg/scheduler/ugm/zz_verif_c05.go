//go:build verif

package ugm

import (
	"github.com/apache/yunikorn-core/pkg/common/configs"
	"github.com/apache/yunikorn-core/pkg/common/resources"
	"github.com/apache/yunikorn-core/pkg/common/security"
)

// C05: user and group quotas are enforced and follow the active configuration (real ugm manager)

var vUser = security.UserGroup{User: "u1", Groups: []string{"g1"}}

var vQtyS = []string{"10", "20", "50"}
var vQtyV = []int64{10, 20, 50}

// vLimitConf: a limit for user u1 on root.a with symbolic kinds: max resources (memory), max applications, or both
func vLimitConf(prefix string) (configs.QueueConfig, bool, int64, uint64) {
	hasRes := vBool(prefix + ".hasres")
	var maxRes map[string]string
	var lim int64
	if hasRes {
		k := vChoice(prefix+".mem", len(vQtyS))
		maxRes = map[string]string{"memory": vQtyS[k]}
		lim = vQtyV[k]
	}
	maxApps := uint64(vRange(prefix+".maxapps", 0, 2))
	vAssume(hasRes || maxApps > 0) // a limit entry defines at least one kind
	a := configs.QueueConfig{Name: "a", Limits: []configs.Limit{{Limit: "l", Users: []string{"u1"}, MaxResources: maxRes, MaxApplications: maxApps}}}
	root := configs.QueueConfig{Name: "root", Parent: true, Queues: []configs.QueueConfig{a}}
	return root, hasRes, lim, maxApps
}

func vMem(v int64) *resources.Resource {
	return resources.NewResourceFromMap(map[string]resources.Quantity{"memory": resources.Quantity(v)})
}

// after a user drained completely, the configured limit is still in force (headroom and application gate)
func VerifC05_LimitSurvivesDrain() {
	vPanics(false)
	vUnwind(40)
	m = newManager() // the trackers consult the package-level manager
	conf, hasRes, lim, maxApps := vLimitConf("c")
	vSplit("c.hasres")
	err := m.UpdateConfig(conf, "root")
	vAssert(err == nil, "world: limits accepted")
	use := vRange("use", 1, 10)
	m.IncreaseTrackedResource("root.a", "app-1", vMem(use), vUser)
	m.DecreaseTrackedResource("root.a", "app-1", vMem(use), vUser, true)
	h := m.Headroom("root.a", "app-2", vUser)
	if hasRes {
		vAssert(h != nil && int64(h.Resources["memory"]) == lim, "U2 after the user drained, the headroom is the configured limit again")
	} else {
		vAssert(h == nil || len(h.Resources) == 0, "U2 without a resource limit the headroom is unlimited")
	}
	// admit applications up to the configured maximum
	ok1 := m.CanRunApp("root.a", "app-2", vUser)
	vAssert(ok1, "U3 an application is admitted while the user runs none")
	m.IncreaseTrackedResource("root.a", "app-2", vMem(1), vUser)
	ok2 := m.CanRunApp("root.a", "app-3", vUser)
	if maxApps == 1 {
		vAssert(!ok2, "U3 no application is admitted beyond the configured maximum number of applications")
	}
	if maxApps == 0 || maxApps == 2 {
		vAssert(ok2, "U3 an application within the configured maximum number of applications is admitted")
	}
	vReach("end")
}

// usage tracked per user equals what was added minus what was removed; headroom = limit - usage; fits headroom => stays within the limit
func VerifC05_UsageAndHeadroom() {
	vPanics(false)
	vUnwind(40)
	m = newManager() // the trackers consult the package-level manager
	conf, hasRes, lim, _ := vLimitConf("c")
	vAssume(hasRes)
	err := m.UpdateConfig(conf, "root")
	vAssert(err == nil, "world: limits accepted")
	u1 := vRange("use1", 1, 60)
	m.IncreaseTrackedResource("root.a", "app-1", vMem(u1), vUser)
	h := m.Headroom("root.a", "app-1", vUser)
	vAssert(h != nil && int64(h.Resources["memory"]) == lim-u1, "U2 the headroom is the limit minus the tracked usage")
	ask := vRange("ask", 1, 60)
	if h.FitInMaxUndef(vMem(ask)) {
		m.IncreaseTrackedResource("root.a", "app-1", vMem(ask), vUser)
		got := m.GetUserResources("u1")
		vAssert(got != nil && int64(got.Resources["memory"]) == u1+ask, "U1 tracked usage is the sum of what was added")
		if u1 <= lim {
			vAssert(u1+ask <= lim, "U2 an ask that fits the headroom never takes the user above the configured maximum")
		}
	}
	vReach("end")
}

// U4: product harness - after a reload the limits in force are exactly those of the latest configuration:
// manager 1 loads C1, runs an application, loads C2; manager 2 loads C2 only and sees the same usage.
type vUgmConf struct {
	rootU1, aU1, aWild, aU2 int64 // memory limits, 0 = not configured
}

func vUgmConfig(prefix string) (configs.QueueConfig, vUgmConf) {
	var c vUgmConf
	pick := func(name string) int64 {
		if !vBool(prefix + "." + name + ".set") {
			return 0
		}
		return vQtyV[vChoice(prefix+"."+name, len(vQtyV))]
	}
	c.rootU1, c.aU1, c.aWild, c.aU2 = pick("root.u1"), pick("a.u1"), pick("a.wild"), pick("a.u2")
	lim := func(user string, v int64) configs.Limit {
		s := "10"
		if v == 20 {
			s = "20"
		}
		if v == 50 {
			s = "50"
		}
		return configs.Limit{Limit: "l", Users: []string{user}, MaxResources: map[string]string{"memory": s}}
	}
	a := configs.QueueConfig{Name: "a"}
	if c.aU1 != 0 {
		a.Limits = append(a.Limits, lim("u1", c.aU1))
	}
	if c.aU2 != 0 {
		a.Limits = append(a.Limits, lim("u2", c.aU2))
	}
	if c.aWild != 0 {
		a.Limits = append(a.Limits, lim("*", c.aWild)) // the wildcard entry comes last
	}
	root := configs.QueueConfig{Name: "root", Parent: true, Queues: []configs.QueueConfig{a}}
	if c.rootU1 != 0 {
		root.Limits = append(root.Limits, lim("u1", c.rootU1))
	}
	return root, c
}

func vHeadMem(h *resources.Resource) int64 {
	if h == nil {
		return -1 // unlimited
	}
	v, ok := h.Resources["memory"]
	if !ok {
		return -1
	}
	return int64(v)
}

func VerifC05_ReloadEqualsFreshConfig() {
	vPanics(false)
	vUnwind(40)
	conf1, _ := vUgmConfig("c1")
	conf2, _ := vUgmConfig("c2")
	use := vRange("use", 1, 10)
	// manager 1: C1, usage, then C2
	m = newManager()
	e1 := m.UpdateConfig(conf1, "root")
	// the application runs across the reload, or starts after it (the trackers are idle during the reload)
	before := vBool("runs.before.reload")
	vSplit("runs.before.reload")
	if before {
		m.IncreaseTrackedResource("root.a", "app-1", vMem(use), vUser)
	}
	e2 := m.UpdateConfig(conf2, "root")
	if !before {
		m.IncreaseTrackedResource("root.a", "app-1", vMem(use), vUser)
	}
	h1 := vHeadMem(m.Headroom("root.a", "app-1", vUser))
	// manager 2: C2 only, same usage
	m = newManager()
	e3 := m.UpdateConfig(conf2, "root")
	m.IncreaseTrackedResource("root.a", "app-1", vMem(use), vUser)
	h2 := vHeadMem(m.Headroom("root.a", "app-1", vUser))
	vAssert(e1 == nil && e2 == nil && e3 == nil, "world: configurations accepted")
	vAssert(h1 == h2, "U4 after a reload the user's headroom is the one of the latest configuration (same as a manager that only ever saw it)")
	vReach("end")
}
