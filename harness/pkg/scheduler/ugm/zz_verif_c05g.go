//go:build verif

package ugm

import (
	"github.com/apache/yunikorn-core/pkg/common/configs"
)

// U2 for groups and wildcards: the headroom of a user is the minimum of what the named or wildcard user limit and
// the limit of the group resolved for the application leave, and an ask that fits it never takes the tracked
// usage of the user or the group above the configured maximum.
func VerifC05_GroupAndWildcardHeadroom() {
	vPanics(false)
	vUnwind(40)
	m = newManager()
	pickQ := func(name string) (string, int64) {
		k := vChoice(name, len(vQtyS))
		return vQtyS[k], vQtyV[k]
	}
	var limits []configs.Limit
	userKind := vChoice("user.limit", 3) // 0 none, 1 named u1, 2 wildcard
	vSplit("user.limit")
	var uLim int64 = -1
	if userKind == 1 {
		s, v := pickQ("u1.mem")
		limits = append(limits, configs.Limit{Limit: "named", Users: []string{"u1"}, MaxResources: map[string]string{"memory": s}})
		uLim = v
	}
	groupKind := vChoice("group.limit", 3) // 0 none, 1 named g1, 2 wildcard
	vSplit("group.limit")
	var gLim int64 = -1
	if groupKind == 1 {
		s, v := pickQ("g1.mem")
		limits = append(limits, configs.Limit{Limit: "group", Groups: []string{"g1"}, MaxResources: map[string]string{"memory": s}})
		gLim = v
	}
	if userKind == 2 {
		s, v := pickQ("wild.mem")
		limits = append(limits, configs.Limit{Limit: "wild", Users: []string{"*"}, MaxResources: map[string]string{"memory": s}})
		uLim = v
	}
	if groupKind == 2 {
		s, v := pickQ("gwild.mem")
		limits = append(limits, configs.Limit{Limit: "gwild", Groups: []string{"*"}, MaxResources: map[string]string{"memory": s}})
		gLim = v
	}
	a := configs.QueueConfig{Name: "a", Limits: limits}
	root := configs.QueueConfig{Name: "root", Parent: true, Queues: []configs.QueueConfig{a}}
	vAssert(m.UpdateConfig(root, "root") == nil, "world: limits accepted")
	use := vRange("use", 1, 60)
	m.IncreaseTrackedResource("root.a", "app-1", vMem(use), vUser)
	h := vHeadMem(m.Headroom("root.a", "app-1", vUser))
	want := int64(-1)
	if uLim >= 0 {
		want = uLim - use
	}
	if gLim >= 0 && (want < 0 && uLim < 0 || gLim-use < want) {
		want = gLim - use
	}
	if uLim < 0 && gLim < 0 {
		vAssert(h == -1, "U2 without any limit the headroom is unlimited")
	} else {
		vAssert(h == want, "U2 the headroom is the smaller of what the user limit (named or wildcard) and the group limit (named or wildcard) leave")
	}
	vReach("end")
}
