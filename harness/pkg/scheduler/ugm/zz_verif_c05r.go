//go:build verif

package ugm

import (
	"github.com/apache/yunikorn-core/pkg/common/configs"
	"github.com/apache/yunikorn-core/pkg/common/security"
)

// U4g: the reload lemma for GROUP limits in a three-level tree root -> parent -> leaf: each configuration
// independently sets or omits a memory limit for the wildcard group and for g1 on root.parent and on
// root.parent.leaf; the user belongs to g1 or to a group no limit names (resolved to the wildcard group).
func vUgmGroupConfig(prefix string) configs.QueueConfig {
	pick := func(name string) string {
		if !vBool(prefix + "." + name + ".set") {
			return ""
		}
		return []string{"10", "20", "50"}[vChoice(prefix+"."+name, 3)]
	}
	lim := func(group string, v string) configs.Limit {
		return configs.Limit{Limit: "l", Groups: []string{group}, MaxResources: map[string]string{"memory": v}}
	}
	leaf := configs.QueueConfig{Name: "leaf"}
	if v := pick("leaf.g1"); v != "" {
		leaf.Limits = append(leaf.Limits, lim("g1", v))
	}
	if v := pick("leaf.wild"); v != "" {
		leaf.Limits = append(leaf.Limits, lim("*", v))
	}
	parent := configs.QueueConfig{Name: "parent", Parent: true, Queues: []configs.QueueConfig{leaf}}
	if v := pick("parent.g1"); v != "" {
		parent.Limits = append(parent.Limits, lim("g1", v))
	}
	if v := pick("parent.wild"); v != "" {
		parent.Limits = append(parent.Limits, lim("*", v))
	}
	return configs.QueueConfig{Name: "root", Parent: true, Queues: []configs.QueueConfig{parent}}
}

func VerifC05_GroupReloadEqualsFreshConfig() {
	vPanics(false)
	vUnwind(40)
	conf1 := vUgmGroupConfig("c1")
	conf2 := vUgmGroupConfig("c2")
	use := vRange("use", 1, 10)
	ug := security.UserGroup{User: "u1", Groups: []string{vStr("group", "g1", "g2")}}
	const path = "root.parent.leaf"
	m = newManager()
	e1 := m.UpdateConfig(conf1, "root")
	e2 := m.UpdateConfig(conf2, "root")
	// the application starts after the reload: every tracker was idle while the configuration changed
	m.IncreaseTrackedResource(path, "app-1", vMem(use), ug)
	h1 := vHeadMem(m.Headroom(path, "app-1", ug))
	m = newManager()
	e3 := m.UpdateConfig(conf2, "root")
	m.IncreaseTrackedResource(path, "app-1", vMem(use), ug)
	h2 := vHeadMem(m.Headroom(path, "app-1", ug))
	vAssert(e1 == nil && e2 == nil && e3 == nil, "world: configurations accepted")
	vAssert(h1 == h2, "U4g after a reload the headroom under group limits is the one of the latest configuration (same as a manager that only ever saw it)")
	vReach("end")
}
