//go:build verif

package scheduler

import (
	"github.com/apache/yunikorn-core/pkg/scheduler/objects"
)

// S4: removing an application (SI Remove request) with outstanding asks takes exactly its own pending resources out
// of the queues: what other applications in the same queue have pending stays, and is still scheduled
func VerifC13_RemoveApplicationKeepsOthersPending() {
	vPanics(false)
	vUnwind(40)
	w := vPartition(1)
	app1 := w.addApp("app-1")
	app2 := w.addApp("app-2")
	r1, r2 := vResPos("ask1"), vResPos("ask2")
	_, _, e1 := w.pc.UpdateAllocation(objects.NewAllocationFromSI(vSIAlloc("ask-1", "app-1", "", r1)))
	_, _, e2 := w.pc.UpdateAllocation(objects.NewAllocationFromSI(vSIAlloc("ask-2", "app-2", "", r2)))
	vAssert(e1 == nil && e2 == nil, "world: asks accepted")
	leaf := w.pc.GetQueue("root.default")
	for i := 0; i < vNK(); i++ {
		vAssert(rv(leaf.GetPendingResource(), i) == rv(r1, i)+rv(r2, i), "world: the leaf has both asks pending")
	}
	released := w.pc.removeApplication("app-1")
	vAssert(len(released) == 0, "S4 an application without allocations releases none")
	vAssert(w.pc.getApplication("app-1") == nil && leaf.GetApplication("app-1") == nil && leaf.GetApplication("app-2") == app2, "S4 exactly the named application is removed")
	for i := 0; i < vNK(); i++ {
		vAssert(rv(app2.GetPendingResource(), i) == rv(r2, i), "S4 the other application's pending total is untouched")
		vAssert(rv(leaf.GetPendingResource(), i) == rv(r2, i) && rv(w.pc.root.GetPendingResource(), i) == rv(r2, i), "S4 the queues keep exactly what the remaining applications have pending")
	}
	_ = app1
	vReach("end")
}
