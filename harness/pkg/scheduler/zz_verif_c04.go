//go:build verif

package scheduler

import (
	"github.com/apache/yunikorn-core/pkg/scheduler/objects"
	"github.com/apache/yunikorn-scheduler-interface/lib/go/si"
)

// C04: allocation protocol seen by the shim (inductive core: every announcement is tied to a state transition)

// same-node placeholder swap in flight (built through the real code), then the node is removed before the shim confirms
func VerifC04_NodeRemovedDuringSameNodeSwap() {
	vPanics(false)
	vUnwind(40)
	w := vPartition(2)
	app := w.addGangApp("app-1")
	phRes, realRes := vResPos("ph"), vResPos("real")
	for i := 0; i < vNK(); i++ {
		vAssume(rv(realRes, i) <= rv(phRes, i))
	}
	ph := objects.NewAllocationFromSI(vSIGang("ask-ph", "app-1", "node-1", "tg-1", true, phRes))
	_, _, e1 := w.pc.UpdateAllocation(ph)
	real := objects.NewAllocationFromSI(vSIGang("ask-real", "app-1", "", "tg-1", false, realRes))
	_, _, e2 := w.pc.UpdateAllocation(real)
	vAssert(e1 == nil && e2 == nil, "world: placeholder recovered and real ask accepted")
	res := w.pc.tryPlaceholderAllocate()
	vAssume(res != nil)
	vAssert(real.GetNodeID() == "node-1" && real.IsAllocated() && ph.IsReleased(), "world: same-node swap in flight")
	released, confirmed := w.pc.removeNode("node-1")
	vAssert(len(confirmed) == 0, "P nothing is confirmed when the node of a same-node swap disappears")
	vAssert(len(released) == 1 && released[0] == ph, "P exactly the placeholder that was bound to the removed node is reported released")
	// what is outstanding from the shim's point of view: the real ask (never bound), not the placeholder (released)
	vAssert(!real.IsAllocated() && !real.HasRelease() && app.GetAllocationAsk("ask-real") == real, "P the real ask is outstanding again, unlinked")
	vAssert(ph.IsAllocated() && !ph.HasRelease(), "P the released placeholder is not put back as an outstanding ask (it would be bound again without being re-submitted)")
	for i := 0; i < vNK(); i++ {
		vAssert(rv(app.GetPendingResource(), i) == rv(realRes, i), "P pending is exactly the real ask")
		vAssert(rv(app.GetPlaceholderResource(), i) == 0 && rv(app.GetAllocatedResource(), i) == 0, "P the application holds nothing after its only node is gone")
		vAssert(rv(w.pc.root.GetAllocatedResource(), i) == 0, "P the queues hold nothing after the only allocation's node is gone")
	}
	vReach("end")
}

// P2: UpdateAllocation is idempotent per key: repeating the same message creates nothing and changes nothing
func VerifC04_UpdateAllocationIdempotent() {
	vPanics(false)
	vUnwind(40)
	w := vPartition(1)
	app := w.addApp("app-1")
	res := vResPos("alloc")
	node := vStr("node", "", "node-1")
	vSplit("node")
	mk := func() *objects.Allocation { return objects.NewAllocationFromSI(vSIAlloc("alloc-1", "app-1", node, res)) }
	req1, all1, err1 := w.pc.UpdateAllocation(mk())
	vAssert(err1 == nil && (req1 != all1), "P a first submission creates either an ask or a bound allocation")
	pre := w.snap(app)
	req2, all2, err2 := w.pc.UpdateAllocation(mk())
	vAssert(err2 == nil && !req2 && !all2, "P repeating the same message creates nothing (an allocation key is bound at most once)")
	vAssert(pre == w.snap(app), "P repeating the same message changes no accounting")
	vReach("end")
}

// P4: releases of unknown keys are no-ops; TIMEOUT / PREEMPTED confirmations are not echoed; a second identical release is a no-op
func VerifC04_ReleaseProtocol() {
	vPanics(false)
	vUnwind(40)
	w := vPartition(1)
	app := w.addApp("app-1")
	_, _, e1 := w.pc.UpdateAllocation(objects.NewAllocationFromSI(vSIAlloc("alloc-1", "app-1", "node-1", vResPos("a1"))))
	vAssert(e1 == nil, "world: allocation bound")
	tt := si.TerminationType(vChoice("tt", 6))
	vAssume(tt != si.TerminationType_PLACEHOLDER_REPLACED)
	vSplit("tt")
	rel := &si.AllocationRelease{ApplicationID: "app-1", AllocationKey: "alloc-1", TerminationType: tt}
	out1, conf1 := w.pc.removeAllocation(rel)
	vAssert(conf1 == nil, "P a plain release confirms nothing")
	if tt == si.TerminationType_TIMEOUT || tt == si.TerminationType_PREEMPTED_BY_SCHEDULER {
		vAssert(len(out1) == 0, "P confirmations of core-initiated releases (TIMEOUT, PREEMPTED_BY_SCHEDULER) are not echoed back")
	} else {
		vAssert(len(out1) == 1 && out1[0].GetAllocationKey() == "alloc-1", "P a shim-initiated release is answered with exactly the released allocation")
	}
	s1 := w.snap(app)
	for i := 0; i < vNK(); i++ {
		vAssert(s1.nodeAlloc[0][i] == 0 && s1.leaf[i] == 0 && s1.appAlloc[i] == 0, "P after the release nothing is booked any more")
	}
	out2, conf2 := w.pc.removeAllocation(rel)
	vAssert(len(out2) == 0 && conf2 == nil && s1 == w.snap(app), "P a second identical release is a no-op")
	vReach("end")
}
