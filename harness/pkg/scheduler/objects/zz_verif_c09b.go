//go:build verif

package objects

// R5: a reservation whose ask is no longer outstanding (allocated by the RM in the meantime, or removed) is handed
// back by the reserved-allocation pass as an Unreserved result for that node, so that the partition drops it from
// the application, the node, the queue and its counter ("reservations disappear when the ask is allocated or removed")
func VerifC09_StaleReservationHandedBack() {
	vPanics(false)
	vUnwind(24)
	rec := &vRecorder{}
	c := vChain()
	app := vApp("app-1", c[0], rec)
	n1 := vPlainNode("node-1")
	n2 := vPlainNode("node-2")
	ask := vAsk("a1", "ask-1", false)
	gone := vBool("ask.gone")
	vSplit("ask.gone")
	if !gone {
		// the RM reported the reserved ask as placed on another node: it is allocated now, the reservation is stale
		ask.allocated = true
		ask.nodeID = "node-2"
		app.requests["ask-1"] = ask
		app.allocations["ask-1"] = ask
	}
	app.reservations["ask-1"] = &reservation{allocKey: "ask-1", nodeID: "node-1", app: app, node: n1, alloc: ask}
	n1.reservations["ask-1"] = &reservation{allocKey: "ask-1", appID: "app-1", app: app, node: n1, alloc: ask}
	c[0].reservedApps["app-1"] = 1
	res := app.tryReservedAllocate(vResQ("headroom"), func() NodeIterator { return &vNodeIter{nodes: []*Node{n1, n2}} })
	vAssert(res != nil && res.ResultType == Unreserved && res.NodeID == "node-1" && res.Request != nil && res.Request.allocationKey == "ask-1",
		"R5 a reservation of an ask that is already allocated or gone comes back as an Unreserved result for its node")
	if !gone {
		vAssert(ask.nodeID == "node-2" && ask.allocated, "R5 handing back a stale reservation leaves the allocated ask bound where it is")
	}
	vReach("end")
}
