//go:build verif

package objects

import (
	"time"

	"github.com/apache/yunikorn-core/pkg/common/configs"
	"github.com/apache/yunikorn-core/pkg/common/resources"
	"github.com/apache/yunikorn-core/pkg/scheduler/ugm"
)

// U5 (decision site, real user/group manager): a reserved ask is only allocated - on its reserved node or on any
// other node - when it fits what the user has left under the configured maximum on the queue path.
func VerifC05_ReservedAllocationRespectsUserQuota() {
	vPanics(false)
	vUnwind(24)
	rec := &vRecorder{}
	c := vChain() // leaf c[0] = root.p.leaf
	app := vApp("app-1", c[0], rec)
	// user u1 is limited on the leaf queue: memory (k0) only
	lim := vRange("limit.k0", 1, 20)
	limS := "5"
	vAssume(lim == 5 || lim == 10 || lim == 20)
	if lim == 10 {
		limS = "10"
	}
	if lim == 20 {
		limS = "20"
	}
	leaf := configs.QueueConfig{Name: "leaf", Limits: []configs.Limit{{Limit: "l", Users: []string{"u1"}, MaxResources: map[string]string{vKeys[0]: limS}}}}
	conf := configs.QueueConfig{Name: "root", Parent: true, Queues: []configs.QueueConfig{{Name: "p", Parent: true, Queues: []configs.QueueConfig{leaf}}}}
	m := ugm.GetUserManager()
	m.ClearUserTrackers()
	m.ClearGroupTrackers()
	m.ClearConfigLimits()
	vAssert(m.UpdateConfig(conf, "root") == nil, "world: user limit accepted")
	used := vRange("used.k0", 0, 20)
	if used > 0 {
		m.IncreaseTrackedResource(c[0].QueuePath, "app-0", resources.NewResourceFromMap(map[string]resources.Quantity{vKeys[0]: resources.Quantity(used)}), app.user)
	}
	n1, n2 := vSimpleNodeD("node-1"), vSimpleNodeD("node-2")
	ask := &Allocation{allocationKey: "ask-1", applicationID: "app-1", allocLog: map[string]*AllocationLogEntry{},
		allocatedResource: resources.NewResourceFromMap(map[string]resources.Quantity{vKeys[0]: resources.Quantity(vRange("ask.k0", 1, 20))})}
	app.requests["ask-1"] = ask
	app.sortedRequests.insert(ask)
	app.pending = ask.allocatedResource.Clone()
	for l := 0; l < 3; l++ {
		c[l].pending = ask.allocatedResource.Clone()
	}
	app.reservations["ask-1"] = &reservation{allocKey: "ask-1", nodeID: "node-1", app: app, node: n1, alloc: ask, createTime: time.Now()}
	n1.reservations["ask-1"] = &reservation{allocKey: "ask-1", appID: "app-1", app: app, node: n1, alloc: ask}
	c[0].reservedApps["app-1"] = 1
	res := app.tryReservedAllocate(nil, func() NodeIterator { return &vNodeIter{nodes: []*Node{n1, n2}} })
	if res != nil && (res.ResultType == Allocated || res.ResultType == AllocatedReserved) {
		vAssert(used+rv(ask.allocatedResource, 0) <= lim, "U5 a reserved ask is allocated only within what the user has left under the configured maximum")
	}
	vReach("end")
}

// a schedulable node with a symbolic amount of free space on k0
func vSimpleNodeD(id string) *Node {
	n, _ := vSimpleNode(id)
	return n
}
