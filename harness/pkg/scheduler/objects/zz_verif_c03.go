//go:build verif

package objects

import "github.com/apache/yunikorn-scheduler-interface/lib/go/si"

// C03: delta-consistency of the paired ledger updates (application, queue chain, node)

func VerifC03_AddAllocationAsk() {
	w := vAppWorld("New", "Accepted", "Running", "Completing", "Resuming")
	vAssume(appInv(w))
	key := vStr("key", "ask-1", "ask-new")
	ask := vAsk("new", key, false)
	// an existing allocated ask is never re-submitted (rejected earlier by the partition)
	vAssume(!(key == "ask-1" && w.has[0] && w.ask[0].allocated))
	err := w.app.AddAllocationAsk(ask)
	vAssert(err == nil, "D a valid ask is accepted by the application")
	vAssert(appInv(w), "I AddAllocationAsk keeps application and queue-chain books consistent (pending moves by the same amount everywhere)")
	vAssert(w.app.requests[key] == ask, "D the ask is outstanding after it was added")
	vReach("end")
}

func VerifC03_RemoveAsk() {
	w := vAppWorld("Accepted", "Running", "Completing", "Failing", "Resuming")
	vAssume(appInv(w))
	key := vStr("key", "ask-1", "ask-2", "unknown", "")
	vSplit("key")
	w.app.removeAsksInternal(key, si.EventRecord_REQUEST_CANCEL)
	vAssert(appInv(w), "I removing asks keeps application and queue-chain books consistent")
	if key == "" {
		vAssert(len(w.app.requests) == 0 && isZeroRes(w.app.pending), "D removing all asks leaves nothing outstanding and no pending resources")
	} else {
		_, still := w.app.requests[key]
		vAssert(!still, "D a removed ask is no longer outstanding")
	}
	vReach("end")
}

func VerifC03_AllocateDeallocateAsk() {
	w := vAppWorld("Accepted", "Running")
	vAssume(appInv(w))
	vAssume(w.has[0])
	a := w.ask[0]
	was := a.allocated
	if vBool("dealloc") {
		// deallocateAsk is used to revert a failed bind: the ask is not (or no longer) listed as an allocation
		vAssume(!was || true)
		_, err := w.app.deallocateAsk(a)
		vAssert((err == nil) == was, "D deallocateAsk succeeds exactly for an allocated ask")
		if err == nil {
			delete(w.app.allocations, a.allocationKey) // caller's part of the revert (never added / removed again)
			// the application totals are the caller's job too; restore them for the invariant check
			if a.placeholder {
				w.app.allocatedPlaceholder.SubFrom(a.allocatedResource)
			} else {
				w.app.allocatedResource.SubFrom(a.allocatedResource)
			}
			for l := 0; l < 3; l++ {
				w.c[l].allocatedResource.SubFrom(a.allocatedResource)
			}
			vAssert(appInv(w), "I deallocateAsk returns the ask to pending on the application and on every queue")
		}
	} else {
		_, err := w.app.allocateAsk(a)
		vAssert((err == nil) == !was, "D allocateAsk succeeds exactly once per ask")
		if err == nil {
			w.app.allocations[a.allocationKey] = a
			if a.placeholder {
				w.app.allocatedPlaceholder.AddTo(a.allocatedResource)
			} else {
				w.app.allocatedResource.AddTo(a.allocatedResource)
			}
			for l := 0; l < 3; l++ {
				w.c[l].allocatedResource.AddTo(a.allocatedResource)
			}
			vAssert(appInv(w), "I allocateAsk moves the ask out of pending on the application and on every queue")
		}
	}
	vReach("end")
}

// tryNode: the one place where node, queue chain and application are updated for a normal allocation
func VerifC03_TryNode() {
	w := vAppWorld("Accepted", "Running", "Completing")
	n := vNode("n")
	vAssume(appInv(w) && nodeInv(n.n, n.extra))
	vAssume(w.has[0] && !w.ask[0].allocated)
	vSplit("aask-1.placeholder")
	vSplit("has.ask-2")
	vSplit("aask-2.allocated")
	vSplit("aask-2.placeholder")
	// allocations already on the node are other applications' (keys alloc-1/alloc-2)
	a := w.ask[0]
	preN := snapNode(n.n)
	preQ := chainSnap(w.c)
	res, err := w.app.tryNode(n.n, a)
	vAssert(err == nil, "D without a predicate plugin tryNode reports no error")
	if res != nil {
		vAssert(res.ResultType == Allocated && res.NodeID == "node-1" && res.Request == a, "D tryNode announces the ask it was given on the node it was given")
		vAssert(a.allocated && w.app.allocations["ask-1"] == a, "D a bound ask is allocated and listed by the application")
		vAssert(n.n.allocations["ask-1"] == a, "D a bound ask is listed by the node")
		for i := 0; i < vNK(); i++ {
			vAssert(rv(a.allocatedResource, i) <= vmax0(preN.avail[i]), "N3 tryNode binds only what fitted the node's available resources")
			vAssert(rv(n.n.allocatedResource, i) == preN.alloc[i]+rv(a.allocatedResource, i), "D the node moved by exactly the ask")
			for l := 0; l < 3; l++ {
				vAssert(rv(w.c[l].allocatedResource, i) == preQ[l][i]+rv(a.allocatedResource, i), "D every queue on the path moved by exactly the ask")
			}
		}
		vAssert(appInv(w), "I after a bind application and queue-chain books agree")
	} else {
		vAssert(!a.allocated, "D a refused ask stays outstanding")
		vAssert(sameNodeSnap(preN, snapNode(n.n)), "Q3 a refusal (node or queue) leaves the node untouched")
		vAssert(chainSnap(w.c) == preQ, "Q3 a refusal leaves every queue untouched")
		vAssert(appInv(w), "I after a refusal the books are unchanged and consistent")
	}
	vAssert(nodeInv(n.n, n.extra), "I tryNode preserves the node ledger invariant")
	vReach("end")
}

func VerifC03_RemoveAllocation() {
	w := vAppWorld("Accepted", "Running", "Completing", "Failing", "Resuming")
	vAssume(appInv(w))
	key := vStr("key", "ask-1", "ask-2", "unknown")
	vSplit("key")
	tt := si.TerminationType(vChoice("tt", 6))
	var pre *Allocation
	if key == "ask-1" && w.has[0] && w.ask[0].allocated {
		pre = w.ask[0]
	}
	if key == "ask-2" && w.has[1] && w.ask[1].allocated {
		pre = w.ask[1]
	}
	got := w.app.removeAllocationInternal(key, tt)
	vAssert(got == pre, "D removeAllocation returns the allocation exactly when the key is a live allocation of the application")
	if got != nil {
		// the queue side is the caller's job (partition): apply it as the partition does
		for l := 0; l < 3; l++ {
			w.c[l].allocatedResource.SubFrom(got.allocatedResource)
		}
		_, still := w.app.allocations[key]
		vAssert(!still, "D a removed allocation is no longer listed")
	}
	vAssert(appInv(w), "I removing an allocation keeps the application totals equal to the sum of the remaining allocations")
	vReach("end")
}

func VerifC03_RemoveAllAllocations() {
	w := vAppWorld("Accepted", "Running", "Completing", "Failing", "Resuming")
	vAssume(appInv(w))
	n0, n1 := w.has[0] && w.ask[0].allocated, w.has[1] && w.ask[1].allocated
	out := w.app.RemoveAllAllocations()
	want := 0
	if n0 {
		want++
	}
	if n1 {
		want++
	}
	vAssert(len(out) == want, "Z RemoveAllAllocations returns every live allocation")
	vAssert(len(w.app.allocations) == 0 && isZeroRes(w.app.allocatedResource) && isZeroRes(w.app.allocatedPlaceholder), "Z after RemoveAllAllocations the application holds nothing")
	vReach("end")
}
