//go:build verif

package objects

import "github.com/apache/yunikorn-scheduler-interface/lib/go/si"

// C03: delta-consistency of the paired ledger updates (application, queue chain, node)

func VerifC03_AddAllocationAsk() {
	w := vAppWorld("New", "Accepted", "Running", "Completing", "Resuming")
	vAssume(appInv(w))
	key := vStr("key", "ask-1", "ask-new")
	ask := vAsk("new", key, false)
	// an existing allocated ask is never re-submitted (rejected earlier by the partition)
	vAssume(!(key == "ask-1" && w.has[0] && w.ask[0].allocated))
	err := w.app.AddAllocationAsk(ask)
	vAssert(err == nil, "D a valid ask is accepted by the application")
	vAssert(appInv(w), "I AddAllocationAsk keeps application and queue-chain books consistent (pending moves by the same amount everywhere)")
	vAssert(w.app.requests[key] == ask, "D the ask is outstanding after it was added")
	vReach("end")
}

func VerifC03_RemoveAsk() {
	w := vAppWorld("Accepted", "Running", "Completing", "Failing", "Resuming")
	vAssume(appInv(w))
	key := vStr("key", "ask-1", "ask-2", "unknown", "")
	vSplit("key")
	w.app.removeAsksInternal(key, si.EventRecord_REQUEST_CANCEL)
	vAssert(appInv(w), "I removing asks keeps application and queue-chain books consistent")
	if key == "" {
		vAssert(len(w.app.requests) == 0 && isZeroRes(w.app.pending), "D removing all asks leaves nothing outstanding and no pending resources")
	} else {
		_, still := w.app.requests[key]
		vAssert(!still, "D a removed ask is no longer outstanding")
	}
	vReach("end")
}

func VerifC03_AllocateDeallocateAsk() {
	w := vAppWorld("Accepted", "Running")
	vAssume(appInv(w))
	vAssume(w.has[0])
	a := w.ask[0]
	was := a.allocated
	if vBool("dealloc") {
		// deallocateAsk is used to revert a failed bind: the ask is not (or no longer) listed as an allocation
		vAssume(!was || true)
		_, err := w.app.deallocateAsk(a)
		vAssert((err == nil) == was, "D deallocateAsk succeeds exactly for an allocated ask")
		if err == nil {
			delete(w.app.allocations, a.allocationKey) // caller's part of the revert (never added / removed again)
			// the application totals are the caller's job too; restore them for the invariant check
			if a.placeholder {
				w.app.allocatedPlaceholder.SubFrom(a.allocatedResource)
			} else {
				w.app.allocatedResource.SubFrom(a.allocatedResource)
			}
			for l := 0; l < 3; l++ {
				w.c[l].allocatedResource.SubFrom(a.allocatedResource)
			}
			vAssert(appInv(w), "I deallocateAsk returns the ask to pending on the application and on every queue")
		}
	} else {
		_, err := w.app.allocateAsk(a)
		vAssert((err == nil) == !was, "D allocateAsk succeeds exactly once per ask")
		if err == nil {
			w.app.allocations[a.allocationKey] = a
			if a.placeholder {
				w.app.allocatedPlaceholder.AddTo(a.allocatedResource)
			} else {
				w.app.allocatedResource.AddTo(a.allocatedResource)
			}
			for l := 0; l < 3; l++ {
				w.c[l].allocatedResource.AddTo(a.allocatedResource)
			}
			vAssert(appInv(w), "I allocateAsk moves the ask out of pending on the application and on every queue")
		}
	}
	vReach("end")
}

// tryNode: the one place where node, queue chain and application are updated for a normal allocation.
// World with concrete structure: app-1 holds one outstanding ask (ask-1) and one bound allocation (ask-2).
func VerifC03_TryNode() {
	vPanics(false)
	rec := &vRecorder{}
	c := vChain()
	app := vApp("app-1", c[0], rec)
	app.stateMachine.SetState(vStr("state", "Accepted", "Running", "Completing"))
	vSplit("state")
	a := &Allocation{allocationKey: "ask-1", applicationID: "app-1", allocatedResource: vResQ("ask.res"), priority: int32(vRange("ask.prio", -2, 2)), allocLog: map[string]*AllocationLogEntry{}}
	b := &Allocation{allocationKey: "ask-2", applicationID: "app-1", allocatedResource: vResQ("other.res"), allocated: true, nodeID: "node-2", allocLog: map[string]*AllocationLogEntry{}}
	pos := false
	for i := 0; i < vNK(); i++ {
		if rv(a.allocatedResource, i) > 0 {
			pos = true
		}
	}
	vAssume(pos)
	app.requests["ask-1"], app.requests["ask-2"] = a, b
	app.sortedRequests.insert(a)
	app.allocations["ask-2"] = b
	app.pending = a.allocatedResource.Clone()
	app.allocatedResource = b.allocatedResource.Clone()
	app.askMaxPriority = a.priority
	for l := 0; l < 3; l++ {
		c[l].allocatedResource.AddTo(b.allocatedResource) // on top of what other applications hold
		c[l].pending = a.allocatedResource.Clone()
	}
	n, extra := vSimpleNode("node-1")
	preN := snapNode(n)
	preQ := chainSnap(c)
	preApp := vecOf(app.allocatedResource)
	res, err := app.tryNode(n, a)
	vAssert(err == nil, "D without a predicate plugin tryNode reports no error")
	vAssert(nodeInv(n, extra), "I tryNode preserves the node ledger invariant")
	if res != nil {
		vAssert(res.ResultType == Allocated && res.NodeID == "node-1" && res.Request == a, "D tryNode announces the ask it was given on the node it was given")
		vAssert(a.allocated && app.allocations["ask-1"] == a && n.allocations["ask-1"] == a, "D a bound ask is allocated and listed by the application and by the node")
		fits, nodeMoved, queuesMoved, appMoved := true, true, true, true
		for i := 0; i < vNK(); i++ {
			d := rv(a.allocatedResource, i)
			if d > vmax0(preN.avail[i]) {
				fits = false
			}
			if rv(n.allocatedResource, i) != preN.alloc[i]+d {
				nodeMoved = false
			}
			for l := 0; l < 3; l++ {
				if rv(c[l].allocatedResource, i) != preQ[l][i]+d || rv(c[l].pending, i) != 0 {
					queuesMoved = false
				}
			}
			if rv(app.allocatedResource, i) != preApp[i]+d || rv(app.pending, i) != 0 {
				appMoved = false
			}
		}
		vAssert(fits, "N3 tryNode binds only what fitted the node's available resources")
		vAssert(nodeMoved, "D the node moved by exactly the ask")
		vAssert(queuesMoved, "D every queue on the path moved by exactly the ask, allocated up and pending down")
		vAssert(appMoved, "D the application moved by exactly the ask, allocated up and pending down")
	} else {
		unchanged := !a.allocated && sameNodeSnap(preN, snapNode(n)) && chainSnap(c) == preQ && vecOf(app.allocatedResource) == preApp
		for i := 0; i < vNK(); i++ {
			if rv(app.pending, i) != rv(a.allocatedResource, i) {
				unchanged = false
			}
		}
		vAssert(unchanged, "Q3 a refusal (node or queue) leaves node, every queue and the application untouched and the ask outstanding")
	}
	vReach("end")
}

func VerifC03_RemoveAllocation() {
	w := vAppWorld("Accepted", "Running", "Completing", "Failing", "Resuming")
	vAssume(appInv(w))
	key := vStr("key", "ask-1", "ask-2", "unknown")
	vSplit("key")
	tt := si.TerminationType(vChoice("tt", 6))
	var pre *Allocation
	if key == "ask-1" && w.has[0] && w.ask[0].allocated {
		pre = w.ask[0]
	}
	if key == "ask-2" && w.has[1] && w.ask[1].allocated {
		pre = w.ask[1]
	}
	got := w.app.removeAllocationInternal(key, tt)
	vAssert(got == pre, "D removeAllocation returns the allocation exactly when the key is a live allocation of the application")
	if got != nil {
		// the queue side is the caller's job (partition): apply it as the partition does
		for l := 0; l < 3; l++ {
			w.c[l].allocatedResource.SubFrom(got.allocatedResource)
		}
		_, still := w.app.allocations[key]
		vAssert(!still, "D a removed allocation is no longer listed")
	}
	vAssert(appInv(w), "I removing an allocation keeps the application totals equal to the sum of the remaining allocations")
	vReach("end")
}

func VerifC03_RemoveAllAllocations() {
	w := vAppWorld("Accepted", "Running", "Completing", "Failing", "Resuming")
	vAssume(appInv(w))
	n0, n1 := w.has[0] && w.ask[0].allocated, w.has[1] && w.ask[1].allocated
	out := w.app.RemoveAllAllocations()
	want := 0
	if n0 {
		want++
	}
	if n1 {
		want++
	}
	vAssert(len(out) == want, "Z RemoveAllAllocations returns every live allocation")
	vAssert(len(w.app.allocations) == 0 && isZeroRes(w.app.allocatedResource) && isZeroRes(w.app.allocatedPlaceholder), "Z after RemoveAllAllocations the application holds nothing")
	vReach("end")
}
