//go:build verif

package objects

import (
	"github.com/apache/yunikorn-core/pkg/common/resources"
	"github.com/apache/yunikorn-core/pkg/scheduler/policies"
)

// C19: scheduling order is a deterministic function of the documented sort keys

// O2: sorting sibling queues gives the same order whatever order the candidates were stored in.
// Three candidates with pairwise different fair shares (summarised, see the engine's share summary) and symbolic
// priorities are sorted twice, presented in two different orders, through the real sort.SliceStable.
func VerifC19_SortQueuesPermutationInvariant() {
	vPanics(false)
	names := []string{"a", "b", "c"}
	var qs [3]*Queue
	var fm [3]*resources.Resource
	for i := 0; i < 3; i++ {
		q := newBlankQueue()
		q.Name, q.QueuePath = names[i], "root."+names[i]
		q.currentPriority = int32(vRange(names[i]+".prio", -1, 1))
		q.pending = resources.NewResourceFromMap(map[string]resources.Quantity{"k0": 1})
		qs[i] = q
		// fair share of a candidate = usage / fair-max (single type k0, no guarantee): see the engine's share summary
		fm[i] = resources.NewResourceFromMap(map[string]resources.Quantity{"k0": resources.Quantity(vRange(names[i]+".fairmax", 1, 4))})
		q.allocatedResource = resources.NewResourceFromMap(map[string]resources.Quantity{"k0": resources.Quantity(vRange(names[i]+".alloc", 0, 8))})
		q.guaranteedResource = nil
	}
	// the fair policy distinguishes every pair: the ratios usage/fair-max are pairwise different
	rat := func(i, j int) bool {
		return qs[i].allocatedResource.Resources["k0"]*fm[j].Resources["k0"] != qs[j].allocatedResource.Resources["k0"]*fm[i].Resources["k0"]
	}
	vAssume(rat(0, 1) && rat(1, 2) && rat(0, 2))
	fair := vBool("fair")
	prio := vBool("considerPriority")
	vSplit("fair")
	vSplit("considerPriority")
	st := policies.FifoSortPolicy
	if fair {
		st = policies.FairSortPolicy
	}
	perm := vChoice("perm", 5) // the second presentation order: one of the 5 non-identity permutations
	vSplit("perm")
	perms := [5][3]int{{0, 2, 1}, {1, 0, 2}, {1, 2, 0}, {2, 0, 1}, {2, 1, 0}}
	first := []*Queue{qs[0], qs[1], qs[2]}
	firstFM := []*resources.Resource{fm[0], fm[1], fm[2]}
	second := make([]*Queue, 3)
	secondFM := make([]*resources.Resource, 3)
	for k := 0; k < 5; k++ {
		if perm == k {
			for j := 0; j < 3; j++ {
				second[j] = qs[perms[k][j]]
				secondFM[j] = fm[perms[k][j]]
			}
		}
	}
	sortQueue(first, firstFM, st, prio)
	sortQueue(second, secondFM, st, prio)
	// the documented keys distinguish every pair: priorities differ pairwise or (fair) shares differ pairwise
	distinctPrio := qs[0].currentPriority != qs[1].currentPriority && qs[1].currentPriority != qs[2].currentPriority && qs[0].currentPriority != qs[2].currentPriority
	if fair || (prio && distinctPrio) {
		same := first[0] == second[0] && first[1] == second[1] && first[2] == second[2]
		vKnown("C19-fair-queue-sort-depends-on-input-order", fair)
		vAssert(same, "O2 sibling queues are tried in the same order whatever order they were stored in")
	}
	if prio && !fair {
		vAssert(first[0].currentPriority >= first[1].currentPriority && first[1].currentPriority >= first[2].currentPriority, "O1 queues are ordered by descending priority")
	}
	vReach("end")
}

type vListener struct{ n int }

func (l *vListener) NodeUpdated(*Node) { l.n++ }

// O4 (node side): every change of a node's utilisation is announced to its listeners (the node collection re-keys on it)
func VerifC19_NodeNotifiesOnUsageChange() {
	vPanics(false)
	n, _ := vSimpleNode("node-1")
	ph := &Allocation{allocationKey: "ph-1", applicationID: "app-1", allocatedResource: vResQ("ph.res"), placeholder: true, taskGroupName: "tg", allocated: true, nodeID: "node-1"}
	n.AddAllocation(ph)
	l := &vListener{}
	n.AddListener(l)
	preA, preV, preT := vecOf(n.allocatedResource), vecOf(n.availableResource), vecOf(n.totalResource)
	op := vChoice("op", 6)
	vSplit("op")
	switch op {
	case 0:
		n.TryAddAllocation(&Allocation{allocationKey: "new", applicationID: "app-1", allocatedResource: vResQ("new.res"), allocated: true})
	case 1:
		n.RemoveAllocation("ph-1")
	case 2:
		real := &Allocation{allocationKey: "real-1", applicationID: "app-1", allocatedResource: vResQ("real.res"), allocated: true, nodeID: "node-1"}
		n.ReplaceAllocation("ph-1", real, resources.Sub(real.allocatedResource, ph.allocatedResource))
	case 3:
		n.SetCapacity(vResQ("cap"))
	case 4:
		n.UpdateAllocatedResource(vResS("delta"))
	case 5:
		n.SetOccupiedResource(vResQ("occ"))
	}
	changed := vecOf(n.allocatedResource) != preA || vecOf(n.availableResource) != preV || vecOf(n.totalResource) != preT
	if changed {
		vKnown("C19-update-allocated-resource-does-not-notify", op == 4)
		vAssert(l.n >= 1, "O4 a change of a node's capacity, allocated or available resources is announced to its listeners")
	}
	vReach("end")
}
