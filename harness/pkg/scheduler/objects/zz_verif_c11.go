//go:build verif

package objects

// C11: queue max-applications gate

const vMaxApps = 3

// vGateChain decorates a queue chain with symbolic max-apps, running counts and allocating sets over {app-1, app-2}
func vGateChain() []*Queue {
	c := vChain()
	for l := 0; l < 3; l++ {
		q := c[l]
		q.maxRunningApps = uint64(vRange(q.QueuePath+".maxapps", 0, vMaxApps))
		q.runningApps = uint64(vRange(q.QueuePath+".running", 0, vMaxApps))
		if vBool(q.QueuePath + ".allocating.app-1") {
			q.allocatingAcceptedApps["app-1"] = true
		}
		if vBool(q.QueuePath + ".allocating.app-2") {
			q.allocatingAcceptedApps["app-2"] = true
		}
	}
	return c
}

func gateInv(c []*Queue) bool {
	ok := true
	for l := 0; l < 3; l++ {
		if c[l].maxRunningApps > 0 && c[l].runningApps > c[l].maxRunningApps {
			ok = false
		}
	}
	return ok
}

type vGateSnap struct {
	running [3]uint64
	a1, a2  [3]bool
}

func gateSnap(c []*Queue) vGateSnap {
	var s vGateSnap
	for l := 0; l < 3; l++ {
		s.running[l] = c[l].runningApps
		s.a1[l] = c[l].allocatingAcceptedApps["app-1"]
		s.a2[l] = c[l].allocatingAcceptedApps["app-2"]
	}
	return s
}

func b2i(b bool) uint64 {
	if b {
		return 1
	}
	return 0
}

// M1: canRunApp true for an untracked app implies room for one more on every level with a limit
func VerifC11_CanRunApp() {
	c := vGateChain()
	id := vStr("id", "app-1", "app-2", "app-3")
	pre := gateSnap(c)
	ok := c[0].canRunApp(id)
	vAssert(gateSnap(c) == pre, "M1 the gate test changes nothing")
	for l := 0; l < 3; l++ {
		q := c[l]
		tracked := (id == "app-1" && pre.a1[l]) || (id == "app-2" && pre.a2[l])
		room := q.maxRunningApps == 0 || tracked || pre.running[l]+b2i(pre.a1[l])+b2i(pre.a2[l])+1 <= q.maxRunningApps
		if ok {
			vAssert(room, "M1 an untracked application passes the gate only if every limited level has room for one more")
		}
		_ = room
	}
	// completeness: the gate does not refuse when every level has room
	all := true
	for l := 0; l < 3; l++ {
		q := c[l]
		tracked := (id == "app-1" && pre.a1[l]) || (id == "app-2" && pre.a2[l])
		if !(q.maxRunningApps == 0 || tracked || pre.running[l]+b2i(pre.a1[l])+b2i(pre.a2[l])+1 <= q.maxRunningApps) {
			all = false
		}
	}
	vAssert(ok == all, "M1 the gate decision equals the documented rule on every level")
	vReach("end")
}

// M2: counters
func VerifC11_Counters() {
	c := vGateChain()
	vAssume(gateInv(c))
	pre := gateSnap(c)
	op := vChoice("op", 3)
	switch op {
	case 0:
		c[0].incRunningApps("app-1")
		post := gateSnap(c)
		for l := 0; l < 3; l++ {
			vAssert(!post.a1[l] && post.a2[l] == pre.a2[l], "M2 an application counted as running is no longer reported as allocating, on every level")
			want := pre.running[l] + 1
			if c[l].maxRunningApps > 0 && want > c[l].maxRunningApps {
				want = c[l].maxRunningApps
			}
			vAssert(post.running[l] == want, "M2 the running count grows by one on every level, clamped at the maximum")
		}
	case 1:
		c[0].decRunningApps()
		post := gateSnap(c)
		for l := 0; l < 3; l++ {
			want := pre.running[l]
			if want > 0 {
				want--
			}
			vAssert(post.running[l] == want && post.a1[l] == pre.a1[l] && post.a2[l] == pre.a2[l], "M2 the running count shrinks by one on every level and never underflows")
		}
	case 2:
		c[0].setAllocatingAccepted("app-1")
		post := gateSnap(c)
		for l := 0; l < 3; l++ {
			vAssert(post.a1[l] && post.a2[l] == pre.a2[l] && post.running[l] == pre.running[l], "M2 an allocating application is marked on every level")
		}
	}
	vAssert(gateInv(c), "M2 the running count never exceeds the maximum")
	vReach("end")
}

// M5: when the last application leaves, nothing is reported as allocating on the leaf or on any ancestor
func VerifC11_RemoveApplicationClearsAllocating() {
	c := vGateChain()
	rec := &vRecorder{}
	app := vApp("app-1", c[0], rec)
	// app-1 is the only application below root; app-2 is not registered anywhere
	for l := 0; l < 3; l++ {
		vAssume(!c[l].allocatingAcceptedApps["app-2"])
		// the allocating mark is set on the whole chain or not at all (setAllocatingAccepted marks every level)
		vAssume(c[l].allocatingAcceptedApps["app-1"] == c[0].allocatingAcceptedApps["app-1"])
	}
	c[0].RemoveApplication(app)
	for l := 0; l < 3; l++ {
		vKnown("C11-allocating-ancestors", l > 0)
		vAssert(len(c[l].allocatingAcceptedApps) == 0, "M5 after the last application is removed no queue on the path reports an allocating application")
	}
	vAssert(len(c[0].applications) == 0, "M5 the application is gone from the leaf")
	vReach("end")
}
