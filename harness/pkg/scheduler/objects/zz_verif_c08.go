//go:build verif

package objects

// C08: quota-change preemption never claims more than the amount by which a queue exceeds its lowered maximum
// (victims already marked for preemption but not yet released count as on their way out)

func VerifC08_QuotaPreemptableBound() {
	vPanics(false)
	c := vChain() // root -> root.p -> root.p.leaf
	leaf := c[0]
	for l := 0; l < 3; l++ {
		c[l].guaranteedResource = nil
		c[l].preemptingResource = resourcesNew()
	}
	c[1].maxResource, c[2].maxResource = nil, nil
	leaf.maxResource = vResQ("leaf.max")
	leaf.allocatedResource = vResQ("leaf.alloc")
	leaf.preemptingResource = vResQ("leaf.preempting")
	for i := 0; i < vNK(); i++ {
		vAssume(rv(leaf.preemptingResource, i) <= rv(leaf.allocatedResource, i)) // in-flight victims are part of the usage
	}
	qpc := NewQuotaPreemptor(leaf)
	qpc.setPreemptableResources()
	for i := 0; i < vNK(); i++ {
		claim := rv(qpc.preemptableResource, i)
		excess := int64(0)
		if rhas(leaf.maxResource, i) {
			excess = rv(leaf.allocatedResource, i) - rv(leaf.preemptingResource, i) - rv(leaf.maxResource, i)
		}
		vAssert(claim >= 0 && claim <= vmax0(excess), "K4 quota preemption never claims more than the amount by which usage (net of victims already on their way out) exceeds the lowered maximum")
	}
	vReach("end")
}
