//go:build verif

package objects

import (
	"github.com/apache/yunikorn-core/pkg/common/resources"
	"github.com/apache/yunikorn-core/pkg/events"
	schedEvt "github.com/apache/yunikorn-core/pkg/scheduler/objects/events"
	"github.com/apache/yunikorn-core/pkg/scheduler/policies"
)

// C07: only eligible allocations are ever offered as preemption victims.
// Tree root{p{A (asker), B (victims)}}; structure concrete, policies / offsets / priorities / flags symbolic.

func VerifC07_EligibleVictims() {
	vPanics(false)
	vUnwind(24)
	root := newBlankQueue()
	root.Name, root.QueuePath = "root", "root"
	mk := func(name string, parent *Queue, leaf bool) *Queue {
		q := newBlankQueue()
		q.Name, q.QueuePath, q.parent, q.isLeaf, q.isManaged = name, parent.QueuePath+"."+name, parent, leaf, true
		q.queueEvents = schedEvt.NewQueueEvents(events.GetEventSystem())
		parent.children[name] = q
		return q
	}
	p := mk("p", root, false)
	a := mk("a", p, true)
	// a third, empty leaf that may be priority-fenced: a fence on one child says nothing about its siblings.
	// (Created before "b" and sorting before it: the engine walks maps in a fixed order, the real code in random order.)
	af := mk("a-fenced", p, true)
	b := mk("b", p, true)
	if vBool("sibling.priorityfence") {
		af.priorityPolicy = policies.FencePriorityPolicy
	}
	af.priorityOffset = int32(vRange("sibling.offset", -3, 3))
	// offsets on every level, default priority policy on the ask path, B default or priority-fenced
	a.priorityOffset = int32(vRange("a.offset", -3, 3))
	p.priorityOffset = int32(vRange("p.offset", -3, 3))
	b.priorityOffset = int32(vRange("b.offset", -3, 3))
	bFence := vBool("b.priorityfence")
	if bFence {
		b.priorityPolicy = policies.FencePriorityPolicy
	}
	if vBool("p.preemptionfence") {
		p.preemptionPolicy = policies.FencePreemptionPolicy
	}
	bDisabled := vBool("b.preemptiondisabled")
	if bDisabled {
		b.preemptionPolicy = policies.DisabledPreemptionPolicy
	}
	vSplit("b.priorityfence")
	vSplit("b.preemptiondisabled")
	rec := &vRecorder{}
	appB := vApp("app-b", b, rec)
	var vict [2]*Allocation
	keys := []string{"v-1", "v-2"}
	for j := 0; j < 2; j++ {
		v := &Allocation{allocationKey: keys[j], applicationID: "app-b", allocated: true, nodeID: "node-1",
			priority: int32(vRange(keys[j]+".prio", -4, 4)), allocatedResource: vResQ(keys[j] + ".res"),
			released: vBool(keys[j] + ".released"), preempted: vBool(keys[j] + ".preempted")}
		if vBool(keys[j] + ".required") {
			v.requiredNode = "node-1"
		}
		vAssume(!(v.released && v.preempted))
		vict[j] = v
		appB.allocations[keys[j]] = v
		b.allocatedResource.AddTo(v.allocatedResource)
	}
	ask := &Allocation{allocationKey: "ask-1", applicationID: "app-a", priority: int32(vRange("ask.prio", -4, 4)), allocatedResource: vResQ("ask.res"), allowPreemptOther: true}
	res := a.FindEligiblePreemptionVictims(a.QueuePath, ask)
	// the ask's effective priority where B branches off, by the documented offset rule
	askAtP := int64(ask.priority) + int64(a.priorityOffset) + int64(p.priorityOffset)
	for path, snap := range res {
		for _, v := range snap.PotentialVictims {
			vAssert(path == "root.p.b" && (v == vict[0] || v == vict[1]), "V2 victims come only from a different leaf inside the asker's preemption fence")
			vAssert(v.allocated && !v.released && !v.preempted && v.requiredNode == "", "V2 a victim is bound, not released, not already marked for preemption and does not require a node")
			share := false
			for i := 0; i < vNK(); i++ {
				if rhas(v.allocatedResource, i) && rhas(ask.allocatedResource, i) {
					share = true
				}
			}
			vAssert(share, "V2 a victim shares a resource type with the ask")
			vAssert(!bDisabled, "V2 no victim is taken from a queue whose preemption policy is disabled")
			if !bFence {
				vAssert(int64(v.priority)+int64(b.priorityOffset) <= askAtP, "V2 without a priority fence a victim does not outrank the ask (offsets along both paths applied)")
			} else {
				vAssert(int64(b.priorityOffset) <= askAtP, "V2 a priority-fenced queue offers victims only to an ask that reaches its fence priority")
			}
		}
	}
	_ = resources.Zero
	vReach("end")
}
