//go:build verif

package objects

import (
	"github.com/apache/yunikorn-core/pkg/events"
	schedEvt "github.com/apache/yunikorn-core/pkg/scheduler/objects/events"
)

// C06: gang scheduling — placeholder replacement

// vGangWorld: app-1 with one allocated placeholder (ask-1, task group tg-1, on node-1) and one outstanding
// real ask (ask-2) whose task group and size are symbolic. Structure is concrete, contents symbolic.
type vGangW struct {
	app      *Application
	c        []*Queue
	rec      *vRecorder
	ph, real *Allocation
	n1, n2   *Node
	x1, x2   vVec
}

func vSimpleNode(id string) (*Node, vVec) {
	n := &Node{NodeID: id, allocations: map[string]*Allocation{}, reservations: map[string]*reservation{}, schedulable: vBool(id + ".schedulable"),
		nodeEvents: schedEvt.NewNodeEvents(events.GetEventSystem())}
	n.totalResource = vResQ(id + ".total")
	n.allocatedResource, n.occupiedResource, n.availableResource = resourcesNew(), resourcesNew(), resourcesNew()
	var extra vVec
	for i := 0; i < vNK(); i++ {
		extra[i] = vRange(id+".occ."+vKeys[i], 0, vQMax)
		if extra[i] != 0 {
			n.occupiedResource.Resources[vKeys[i]] = resQ(extra[i])
		}
		av := rv(n.totalResource, i) - extra[i]
		if av != 0 {
			n.availableResource.Resources[vKeys[i]] = resQ(av)
		}
	}
	return n, extra
}

func vGangWorld() *vGangW {
	g := &vGangW{rec: &vRecorder{}}
	g.c = vChain()
	g.app = vApp("app-1", g.c[0], g.rec)
	g.app.stateMachine.SetState(vStr("state", "Accepted", "Running"))
	g.ph = &Allocation{allocationKey: "ask-1", applicationID: "app-1", allocatedResource: vResQ("ph.res"), placeholder: true, taskGroupName: "tg-1",
		allocated: true, nodeID: "node-1", allocLog: map[string]*AllocationLogEntry{}}
	g.real = &Allocation{allocationKey: "ask-2", applicationID: "app-1", allocatedResource: vResQ("real.res"),
		taskGroupName: vStr("real.tg", "tg-1", "tg-2", ""), allocLog: map[string]*AllocationLogEntry{}}
	pos := false
	for i := 0; i < vNK(); i++ {
		if rv(g.real.allocatedResource, i) > 0 {
			pos = true
		}
	}
	vAssume(pos)
	g.ph.released = vBool("ph.released")
	g.ph.preempted = vBool("ph.preempted")
	vAssume(!(g.ph.released && g.ph.preempted))
	app := g.app
	app.requests["ask-1"], app.requests["ask-2"] = g.ph, g.real
	app.sortedRequests.insert(g.real)
	app.allocations["ask-1"] = g.ph
	app.addPlaceholderData(g.ph)
	app.allocatedPlaceholder = g.ph.allocatedResource.Clone()
	app.pending = g.real.allocatedResource.Clone()
	app.hasPlaceholderAlloc = true
	for l := 0; l < 3; l++ {
		// queues hold the placeholder (plus what vChain put there for others)
		g.c[l].allocatedResource.AddTo(g.ph.allocatedResource)
		g.c[l].pending = g.real.allocatedResource.Clone()
	}
	g.n1, g.x1 = vSimpleNode("node-1")
	g.n2, g.x2 = vSimpleNode("node-2")
	g.n1.AddAllocation(g.ph)
	return g
}

// G1: tryPlaceholderAllocate, same-node and other-node branch
func VerifC06_TryPlaceholderAllocate() {
	vPanics(false)
	g := vGangWorld()
	ph, real := g.ph, g.real
	vRegisterPlugin([]string{"ask-2"}, []string{"node-1", "node-2"})
	vSplit("real.tg")
	vSplit("ph.released")
	vSplit("deny.ask-2.node-1")
	getNode := func(id string) *Node {
		if id == "node-1" {
			return g.n1
		}
		if id == "node-2" {
			return g.n2
		}
		return nil
	}
	iter := func() NodeIterator { return &vNodeIter{nodes: []*Node{g.n1, g.n2}} }
	preQ := chainSnap(g.c)
	preN1, preN2 := snapNode(g.n1), snapNode(g.n2)
	phWasLive := !ph.released && !ph.preempted
	var prePend vVec = vecOf(g.app.pending)
	res := g.app.tryPlaceholderAllocate(iter, getNode)
	vAssert(chainSnap(g.c) == preQ, "G1 a placeholder swap never changes queue usage at decision time")
	if res != nil {
		vAssert(res.ResultType == Replaced && res.Request == real, "G1 the swap announces the real ask")
		vAssert(real.taskGroupName != "" && real.taskGroupName == ph.taskGroupName, "G1 a real ask replaces a placeholder only of the same task group")
		vAssert(phWasLive, "G1 only a placeholder that is bound, not released and not preempted is replaced")
		okSize, okPend := true, true
		for i := 0; i < vNK(); i++ {
			if rv(real.allocatedResource, i) > rv(ph.allocatedResource, i) {
				okSize = false
			}
			if rv(g.app.pending, i) != prePend[i]-rv(real.allocatedResource, i) {
				okPend = false
			}
		}
		vAssert(okSize, "G1 a real ask replaces a placeholder only if it is no larger on every resource type")
		vAssert(okPend, "G1 the swapped ask leaves pending exactly once")
		vAssert(real.allocated && real.release == ph && ph.release == real && ph.released, "G1 after the decision the two allocations are linked and the placeholder is marked released")
		if res.NodeID == "node-1" {
			vAssert(sameNodeSnap(preN1, snapNode(g.n1)) && sameNodeSnap(preN2, snapNode(g.n2)), "G1 a same-node swap leaves node ledgers alone until the shim confirms")
		} else {
			post := snapNode(g.n2)
			okFit, okMove := true, true
			for i := 0; i < vNK(); i++ {
				if rv(real.allocatedResource, i) > vmax0(preN2.avail[i]) {
					okFit = false
				}
				if post.alloc[i] != preN2.alloc[i]+rv(real.allocatedResource, i) {
					okMove = false
				}
			}
			vAssert(res.NodeID == "node-2" && sameNodeSnap(preN1, snapNode(g.n1)) && g.n2.schedulable && okFit && okMove && g.n2.allocations["ask-2"] == real,
				"G1' an other-node swap binds the real ask to a schedulable node it fits, moves that node by exactly the ask and leaves the placeholder's node alone")
		}
	} else {
		okPend := true
		for i := 0; i < vNK(); i++ {
			if rv(g.app.pending, i) != prePend[i] {
				okPend = false
			}
		}
		vAssert(!real.allocated && real.release == nil && ph.release == nil && okPend && sameNodeSnap(preN1, snapNode(g.n1)) && sameNodeSnap(preN2, snapNode(g.n2)),
			"G1'' without a swap the real ask stays outstanding and unlinked, pending and nodes are unchanged")
	}
	// every announcement to the shim is a TIMEOUT release of the placeholder, at most once
	vAssert(len(g.rec.released) <= 1, "G1''' at most one release is announced")
	if len(g.rec.released) == 1 {
		vAssert(g.rec.released[0].AllocationKey == "ask-1" && ph.released && phWasLive && res == nil, "G1''' only a live, oversize-mismatched placeholder is released, and it is marked released")
	}
	vReach("end")
}

// G3: the placeholder timeout. Fired by calling the timer callback directly (the timer may already have fired and
// be waiting for the application lock when it is stopped, so every state is a possible pre-state).
func VerifC06_PlaceholderTimeout() {
	vUnwind(24)
	g := vGangWorld()
	app, ph, real := g.app, g.ph, g.real
	hard := vBool("hard")
	if hard {
		app.gangSchedulingStyle = Hard
	} else {
		app.gangSchedulingStyle = Soft
	}
	vSplit("hard")
	vSplit("state")
	vSplit("real.tg")
	// a placeholder holds something: an empty placeholder is not a placeholder the shim can create
	phPos := false
	for i := 0; i < vNK(); i++ {
		if rv(ph.allocatedResource, i) > 0 {
			phPos = true
		}
	}
	vAssume(phPos)
	// the real ask may be the replacement of the placeholder, decided but not yet confirmed by the shim: it is bound
	// (allocated, linked both ways with the placeholder, which is marked released) and no longer pending
	inflight := vBool("swap.inflight")
	vSplit("swap.inflight")
	if inflight {
		vAssume(ph.released && real.taskGroupName == "tg-1")
		real.allocated, real.nodeID = true, "node-1"
		real.release, ph.release = ph, real
		app.pending = resourcesNew()
		for l := 0; l < 3; l++ {
			g.c[l].pending = resourcesNew()
		}
	}
	state0 := app.stateMachine.Current()
	phWasLive := !ph.released && !ph.preempted
	// a real allocation exists exactly when the application is Running here
	var realAlloc *Allocation
	if state0 == "Running" {
		realAlloc = &Allocation{allocationKey: "real-0", applicationID: "app-1", allocatedResource: vResQ("real0.res"), allocated: true, nodeID: "node-2", allocLog: map[string]*AllocationLogEntry{}}
		app.allocations["real-0"] = realAlloc
		app.requests["real-0"] = realAlloc
		app.allocatedResource = realAlloc.allocatedResource.Clone()
	}
	app.timeoutPlaceholderProcessing()
	state1 := app.stateMachine.Current()
	if state0 == "Accepted" {
		// before any real allocation: Hard fails, Soft resumes; everything of the gang is released
		if hard {
			vAssert(state1 == "Failing", "G3 a Hard gang application fails when the placeholder timeout fires before any real allocation")
		} else {
			vAssert(state1 == "Resuming", "G3 a Soft gang application resumes normal scheduling when the placeholder timeout fires before any real allocation")
		}
		vAssert(len(app.requests) == 0 && isZeroRes(app.pending), "G3 every pending ask is removed on timeout")
		if inflight {
			vAssert(g.rec.relByKey("ask-2") == 0 && !real.released, "G3 a real ask that is bound as the replacement of a placeholder is not announced as released by the timeout (the shim would see it outstanding again after confirming the swap)")
		} else {
			vAssert(g.rec.relByKey("ask-2") == 1 && real.released, "G3 the pending ask is announced as released once")
		}
		vAssert(ph.released || ph.preempted, "G3 every placeholder is released (or already preempted) after the timeout")
		if phWasLive {
			vAssert(g.rec.relByKey("ask-1") == 1, "G3 a live placeholder is announced exactly once with the timeout")
		}
	} else {
		// Running: the application has a real allocation
		vAssert(state1 == state0, "G3 once the application runs, the placeholder timeout never changes its state")
		vAssert(realAlloc != nil && !realAlloc.released && app.allocations["real-0"] == realAlloc && g.rec.relByKey("real-0") == 0, "G3 the placeholder timeout never releases a real allocation")
		vAssert(ph.released || ph.preempted, "G3 remaining placeholders are released (or already preempted) after the timeout")
		if phWasLive {
			vAssert(g.rec.relByKey("ask-1") == 1, "G3 remaining live placeholders are announced once")
		}
	}
	vReach("end")
}

// F18 shape: Running, every placeholder already replaced, the (late) timer callback still runs
func VerifC06_LateTimeoutOnRunningApp() {
	vUnwind(24)
	rec := &vRecorder{}
	c := vChain()
	app := vApp("app-1", c[0], rec)
	app.stateMachine.SetState(vStr("state", "Running", "Completing"))
	if vBool("hard") {
		app.gangSchedulingStyle = Hard
	} else {
		app.gangSchedulingStyle = Soft
	}
	state0 := app.stateMachine.Current()
	realAlloc := &Allocation{allocationKey: "real-0", applicationID: "app-1", allocatedResource: vResQ("real0.res"), allocated: true, nodeID: "node-1", taskGroupName: "tg-1", allocLog: map[string]*AllocationLogEntry{}}
	app.allocations["real-0"] = realAlloc
	app.requests["real-0"] = realAlloc
	app.allocatedResource = realAlloc.allocatedResource.Clone()
	app.placeholderData = map[string]*PlaceholderData{"tg-1": {TaskGroupName: "tg-1", Count: 1, Replaced: 1}}
	app.timeoutPlaceholderProcessing()
	vAssert(app.stateMachine.Current() == state0 && !realAlloc.released && len(rec.released) == 0, "G3 a placeholder timeout that fires after every placeholder was replaced leaves the running application and its real allocations alone")
	vReach("end")
}
