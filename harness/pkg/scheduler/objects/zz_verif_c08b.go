//go:build verif

package objects

import (
	"time"

	"github.com/apache/yunikorn-core/pkg/common/resources"
	"github.com/apache/yunikorn-core/pkg/events"
	schedEvt "github.com/apache/yunikorn-core/pkg/scheduler/objects/events"
)

// vResD: a dense vector (every type defined) with small quantities: the preemption search is combinatorial, the
// interesting cases need two types and a handful of distinct values, not large numbers
func vResD(name string, hi int64) *resources.Resource {
	r := resources.NewResource()
	for i := 0; i < vNK(); i++ {
		r.Resources[vKeys[i]] = resources.Quantity(vRange(name+"."+vKeys[i], 0, hi))
	}
	return r
}

func vResC(v int64) *resources.Resource {
	r := resources.NewResource()
	for i := 0; i < vNK(); i++ {
		r.Resources[vKeys[i]] = resources.Quantity(v)
	}
	return r
}

// K1-K4: the commit step of queue preemption. Tree root{p{a (asker), b (victims)}}, one node, two victims of
// symbolic size bound to it, no predicate plug-in registered (the core then takes the first candidate node).
func vPreemptWorld() (a, b *Queue, appA *Application, ask *Allocation, n1 *Node, vict [2]*Allocation, rec *vRecorder, avail vVec) {
	root := newBlankQueue()
	root.Name, root.QueuePath = "root", "root"
	mk := func(name string, parent *Queue, leaf bool) *Queue {
		q := newBlankQueue()
		q.Name, q.QueuePath, q.parent, q.isLeaf, q.isManaged = name, parent.QueuePath+"."+name, parent, leaf, true
		q.queueEvents = schedEvt.NewQueueEvents(events.GetEventSystem())
		parent.children[name] = q
		return q
	}
	p := mk("p", root, false)
	a = mk("a", p, true)
	b = mk("b", p, true)
	b.guaranteedResource = vResD("b.guar", 12)
	if vTier() > 0 {
		// thorough: the asker's side is symbolic as well - guaranteed share and current usage of queue a
		a.guaranteedResource = vResD("a.guar", 30)
		a.allocatedResource = vResD("a.alloc", 30)
	} else {
		a.guaranteedResource = vResC(20)
		a.allocatedResource = resourcesNew()
	}
	rec = &vRecorder{}
	appA = vApp("app-a", a, rec)
	appB := vApp("app-b", b, rec)
	a.applications["app-a"], b.applications["app-b"] = appA, appB
	aqm := NewAppQueueMapping()
	aqm.AddAppQueueMapping("app-a", a)
	aqm.AddAppQueueMapping("app-b", b)
	root.appQueueMapping, p.appQueueMapping, a.appQueueMapping, b.appQueueMapping = aqm, aqm, aqm, aqm
	n1 = &Node{NodeID: "node-1", allocations: map[string]*Allocation{}, reservations: map[string]*reservation{}, schedulable: true,
		nodeEvents: schedEvt.NewNodeEvents(events.GetEventSystem())}
	n1.totalResource = vResD("node-1.total", 40)
	n1.allocatedResource, n1.occupiedResource, n1.availableResource = resourcesNew(), resourcesNew(), n1.totalResource.Clone()
	keys := []string{"v-1", "v-2"}
	t0 := time.Now()
	v1Newer := vBool("v-1.newer")
	for j := 0; j < 2; j++ {
		v := &Allocation{allocationKey: keys[j], applicationID: "app-b", allocated: true, nodeID: "node-1",
			priority: 0, allocatedResource: vResD(keys[j]+".res", 10), allocLog: map[string]*AllocationLogEntry{},
			askEvents: schedEvt.NewAskEvents(events.GetEventSystem())}
		pos := false
		for i := 0; i < vNK(); i++ {
			if rv(v.allocatedResource, i) > 0 {
				pos = true
			}
		}
		vAssume(pos)
		// distinct creation times, either victim may be the newer one: victims with equal score and creation time
		// are ordered by map iteration, i.e. not at all (and differently in every native run)
		if (j == 0) == v1Newer {
			v.createTime = t0.Add(time.Second)
		} else {
			v.createTime = t0
		}
		vict[j] = v
		appB.allocations[keys[j]] = v
		appB.allocatedResource.AddTo(v.allocatedResource)
		b.allocatedResource.AddTo(v.allocatedResource)
		p.allocatedResource.AddTo(v.allocatedResource)
		root.allocatedResource.AddTo(v.allocatedResource)
		n1.allocations[keys[j]] = v
		n1.allocatedResource.AddTo(v.allocatedResource)
		n1.availableResource.SubFrom(v.allocatedResource)
	}
	p.allocatedResource.AddTo(a.allocatedResource)
	root.allocatedResource.AddTo(a.allocatedResource)
	// the node is not over-committed
	for i := 0; i < vNK(); i++ {
		vAssume(rv(n1.availableResource, i) >= 0)
	}
	ask = &Allocation{allocationKey: "ask-1", applicationID: "app-a", priority: 5, allocatedResource: vResD("ask.res", 10), allowPreemptOther: true,
		allocLog: map[string]*AllocationLogEntry{}, askEvents: schedEvt.NewAskEvents(events.GetEventSystem())}
	askPos := false
	for i := 0; i < vNK(); i++ {
		if rv(ask.allocatedResource, i) > 0 {
			askPos = true
		}
	}
	vAssume(askPos)
	appA.requests["ask-1"] = ask
	for i := 0; i < vNK(); i++ {
		avail[i] = rv(n1.availableResource, i)
	}
	return
}

func VerifC08_TryPreemptionCommit() {
	vPanics(false)
	vUnwind(24)
	a, b, appA, ask, n1, vict, rec, avail := vPreemptWorld()
	keys := []string{"v-1", "v-2"}
	prePreempting := vecOf(b.preemptingResource)
	bUsage := vecOf(b.allocatedResource)
	pr := NewPreemptor(appA, nil, 0, ask, &vNodeIter{nodes: []*Node{n1}}, true)
	res, ok := pr.TryPreemption()
	var freed vVec
	committed := 0
	for j := 0; j < 2; j++ {
		if vict[j].preempted {
			committed++
			for i := 0; i < vNK(); i++ {
				freed[i] += rv(vict[j].allocatedResource, i)
			}
		}
	}
	vObserve("ok", ok)
	vObserve("committed", committed)
	vObserve("released", len(rec.released))
	if ok {
		vAssert(res != nil && res.NodeID == "node-1" && committed > 0, "K1 a committed preemption names the node and has at least one victim")
		for i := 0; i < vNK(); i++ {
			if rhas(ask.allocatedResource, i) {
				vAssert(avail[i]+freed[i] >= rv(ask.allocatedResource, i), "K1 preemption is committed only if the chosen victims together with the free space of the chosen node cover the ask")
			}
		}
		vAssert(!isZeroRes(a.guaranteedResource), "K0 preemption is only attempted for an ask whose queue path has guaranteed resources")
		// K2 (necessary for any order in which the victims were taken): the victim queue was above its guaranteed
		// share on a type the ask names before the first victim was taken, and still was after one of the two
		// victims when both were taken
		over := false
		var overAfter [2]bool
		for i := 0; i < vNK(); i++ {
			if rhas(ask.allocatedResource, i) {
				if bUsage[i] > rv(b.guaranteedResource, i) {
					over = true
				}
				for j := 0; j < 2; j++ {
					if bUsage[i]-rv(vict[j].allocatedResource, i) > rv(b.guaranteedResource, i) {
						overAfter[j] = true
					}
				}
			}
		}
		vAssert(over, "K2 victims are only taken from a queue that is above its guaranteed share on a type the ask names")
		if committed == 2 {
			vAssert(overAfter[0] || overAfter[1], "K2 the second victim is only taken while its queue is still above its guaranteed share after the first")
		}
		vAssert(ask.HasTriggeredPreemption(), "K4 the ask is marked as having triggered preemption")
		for j := 0; j < 2; j++ {
			want := 0
			if vict[j].preempted {
				want = 1
			}
			vAssert(rec.relByKey(keys[j]) == want, "K4 exactly the chosen victims are announced to the shim")
		}
		post := vecOf(b.preemptingResource)
		for i := 0; i < vNK(); i++ {
			vAssert(post[i] == prePreempting[i]+freed[i], "K4 the resources of the chosen victims are tracked as preempting on their queue")
		}
	} else {
		vAssert(res == nil && committed == 0 && len(rec.released) == 0 && !ask.HasTriggeredPreemption(), "K3 a preemption attempt that is not committed marks and announces nothing")
		vAssert(vecOf(b.preemptingResource) == prePreempting, "K3 a preemption attempt that is not committed leaves the preempting totals alone")
	}
	vReach("end")
}
