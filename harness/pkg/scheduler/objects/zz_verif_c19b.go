//go:build verif

package objects

import (
	"github.com/apache/yunikorn-core/pkg/common/resources"
	"github.com/apache/yunikorn-core/pkg/scheduler/policies"
)

// O2 (tie-break): candidates with EQUAL fair shares (all idle) and pairwise different priorities: the fair policy
// falls back to the priority, whatever the pending sizes are, and the result does not depend on the storage order.
func VerifC19_SortQueuesTieBreakByPriority() {
	vPanics(false)
	names := []string{"a", "b", "c"}
	var qs [3]*Queue
	var fm [3]*resources.Resource
	for i := 0; i < 3; i++ {
		q := newBlankQueue()
		q.Name, q.QueuePath = names[i], "root."+names[i]
		q.currentPriority = int32(vRange(names[i]+".prio", -1, 1))
		q.pending = resources.NewResourceFromMap(map[string]resources.Quantity{"k0": resources.Quantity(vRange(names[i]+".pending", 1, 6))})
		q.allocatedResource = resources.NewResourceFromMap(map[string]resources.Quantity{"k0": 0})
		q.guaranteedResource = nil
		qs[i] = q
		fm[i] = resources.NewResourceFromMap(map[string]resources.Quantity{"k0": resources.Quantity(vRange(names[i]+".fairmax", 1, 4))})
	}
	vAssume(qs[0].currentPriority != qs[1].currentPriority && qs[1].currentPriority != qs[2].currentPriority && qs[0].currentPriority != qs[2].currentPriority)
	prio := vBool("considerPriority")
	vSplit("considerPriority")
	perm := vChoice("perm", 5)
	vSplit("perm")
	perms := [5][3]int{{0, 2, 1}, {1, 0, 2}, {1, 2, 0}, {2, 0, 1}, {2, 1, 0}}
	first := []*Queue{qs[0], qs[1], qs[2]}
	firstFM := []*resources.Resource{fm[0], fm[1], fm[2]}
	second := make([]*Queue, 3)
	secondFM := make([]*resources.Resource, 3)
	for k := 0; k < 5; k++ {
		if perm == k {
			for j := 0; j < 3; j++ {
				second[j] = qs[perms[k][j]]
				secondFM[j] = fm[perms[k][j]]
			}
		}
	}
	sortQueue(first, firstFM, policies.FairSortPolicy, prio)
	sortQueue(second, secondFM, policies.FairSortPolicy, prio)
	vAssert(first[0] == second[0] && first[1] == second[1] && first[2] == second[2], "O2 queues with equal shares and different priorities are tried in the same order whatever order they were stored in")
	vAssert(first[0].currentPriority > first[1].currentPriority && first[1].currentPriority > first[2].currentPriority, "O1 among queues with equal fair shares the higher priority goes first")
	vReach("end")
}
