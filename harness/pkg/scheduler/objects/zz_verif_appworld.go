//go:build verif

package objects

import (
	"fmt"

	"github.com/apache/yunikorn-core/pkg/common/security"
	"github.com/apache/yunikorn-core/pkg/plugins"
	"github.com/apache/yunikorn-core/pkg/rmproxy/rmevent"
	"github.com/apache/yunikorn-scheduler-interface/lib/go/si"
)

// vRecorder stands for the shim side of the event handler: it records what the core announces
// and answers release notifications (natively from a goroutine, in the engine the receive yields an arbitrary result).
type vRecorder struct {
	released []*si.AllocationRelease
	appUpd   []*si.UpdatedApplication
	other    int
}

func (r *vRecorder) HandleEvent(ev interface{}) {
	switch e := ev.(type) {
	case *rmevent.RMReleaseAllocationEvent:
		r.released = append(r.released, e.ReleasedAllocations...)
		if e.Channel != nil {
			c := e.Channel
			go func() { c <- &rmevent.Result{Succeeded: true} }()
		}
	case *rmevent.RMApplicationUpdateEvent:
		r.appUpd = append(r.appUpd, e.UpdatedApplications...)
	default:
		r.other++
	}
}

// vApp: an application registered in leaf queue q, built by the real constructor
func vApp(id string, q *Queue, rec *vRecorder) *Application {
	app := NewApplication(&si.AddApplicationRequest{ApplicationID: id, QueueName: q.QueuePath, PartitionName: "default"},
		security.UserGroup{User: "u1", Groups: []string{"g1"}}, rec, "rm-1")
	app.queue = q
	app.sendStateChangeEvents = false
	q.applications[id] = app
	return app
}

var vAppStates = []string{"New", "Accepted", "Running", "Rejected", "Completing", "Completed", "Failing", "Failed", "Expired", "Resuming"}

// ---- application with asks / allocations on a queue chain and one node ----

type vAppW struct {
	app   *Application
	c     []*Queue
	rec   *vRecorder
	ask   [2]*Allocation
	has   [2]bool
	xPend [3]vVec // pending of other applications per level (>= 0)
	xAll  [3]vVec // allocated of other applications per level (>= 0)
	node  *vNodeWorld
}

var vAskKeys = []string{"ask-1", "ask-2"}

// vAsk: an ask/allocation object of app-1; allocated flag symbolic when allowAllocated
func vAsk(name, key string, allowAllocated bool) *Allocation {
	a := &Allocation{
		allocationKey:     key,
		applicationID:     "app-1",
		allocatedResource: vResQ(name + ".res"),
		priority:          int32(vRange(name+".prio", -2, 2)),
		allocLog:          map[string]*AllocationLogEntry{},
	}
	any := false
	for i := 0; i < vNK(); i++ {
		if rv(a.allocatedResource, i) > 0 {
			any = true
		}
	}
	vAssume(any) // asks are strictly positive (checked at the SI boundary)
	if vBool(name + ".placeholder") {
		a.placeholder = true
		a.taskGroupName = "tg-1"
	} else if vBool(name + ".hasTG") {
		a.taskGroupName = "tg-1"
	}
	if allowAllocated && vBool(name+".allocated") {
		a.allocated = true
		a.nodeID = "node-1"
	}
	return a
}

// vAppWorld: app-1 in root.p.leaf with up to two asks; ledgers consistent (AppInv + chain sums)
func vAppWorld(states ...string) *vAppW {
	w := &vAppW{rec: &vRecorder{}}
	w.c = vGateChain()
	w.app = vApp("app-1", w.c[0], w.rec)
	if len(states) > 0 {
		w.app.stateMachine.SetState(vStr("state", states...))
		vSplit("state")
	}
	pend, al, ph := resourcesNew(), resourcesNew(), resourcesNew()
	maxPrio := int32(-2147483648)
	for j := 0; j < 2; j++ {
		w.ask[j] = vAsk("a"+vAskKeys[j], vAskKeys[j], true)
		w.has[j] = vBool("has." + vAskKeys[j])
		if !w.has[j] {
			continue
		}
		a := w.ask[j]
		w.app.requests[a.allocationKey] = a
		w.app.sortedRequests.insert(a)
		if a.placeholder {
			w.app.addPlaceholderData(a)
		}
		if a.allocated {
			w.app.allocations[a.allocationKey] = a
			if a.placeholder {
				ph.AddTo(a.allocatedResource)
			} else {
				al.AddTo(a.allocatedResource)
			}
		} else {
			pend.AddTo(a.allocatedResource)
			if a.priority > maxPrio {
				maxPrio = a.priority
			}
		}
	}
	pend.Prune()
	al.Prune()
	ph.Prune()
	w.app.pending, w.app.allocatedResource, w.app.allocatedPlaceholder = pend, al, ph
	w.app.askMaxPriority = maxPrio
	w.app.hasPlaceholderAlloc = !isZeroRes(ph)
	// queue chain: every level holds the application's amounts plus those of others
	for l := 0; l < 3; l++ {
		q := w.c[l]
		qp, qa := resourcesNew(), resourcesNew()
		for i := 0; i < vNK(); i++ {
			w.xPend[l][i] = vRange(q.QueuePath+".xpend."+vKeys[i], 0, vQMax)
			w.xAll[l][i] = vRange(q.QueuePath+".xalloc."+vKeys[i], 0, vQMax)
			if l > 0 { // a parent holds at least what its child holds
				w.xPend[l][i] += w.xPend[l-1][i]
				w.xAll[l][i] += w.xAll[l-1][i]
			}
			pv := rv(pend, i) + w.xPend[l][i]
			av := rv(al, i) + rv(ph, i) + w.xAll[l][i]
			if pv != 0 || vBool(q.QueuePath+".pend0."+vKeys[i]) {
				qp.Resources[vKeys[i]] = resQ(pv)
			}
			if av != 0 || vBool(q.QueuePath+".alloc0."+vKeys[i]) {
				qa.Resources[vKeys[i]] = resQ(av)
			}
		}
		q.pending, q.allocatedResource = qp, qa
	}
	return w
}

// appInv: the application's books agree with its asks and allocations, and the queue chain with the application
func appInv(w *vAppW) bool {
	ok := true
	app := w.app
	if app.pending == nil || app.allocatedResource == nil || app.allocatedPlaceholder == nil {
		return false
	}
	terminal := app.stateMachine.Is("Failed") || app.stateMachine.Is("Completed")
	for i := 0; i < vNK(); i++ {
		var p, a, h int64
		for key, r := range app.requests {
			if r == nil || r.allocationKey != key {
				ok = false
				continue
			}
			if !r.allocated {
				p += rv(r.allocatedResource, i)
			}
		}
		for key, r := range app.allocations {
			if r == nil || r.allocationKey != key || !r.allocated {
				ok = false
				continue
			}
			if r.placeholder {
				h += rv(r.allocatedResource, i)
			} else {
				a += rv(r.allocatedResource, i)
			}
		}
		if terminal {
			// a terminated application drops its asks at once (cleanupAsks); its pending total is returned to the
			// queue when the application is removed from it, so here only the queue/application agreement is required
			p = rv(app.pending, i)
		}
		if rv(app.pending, i) != p || rv(app.allocatedResource, i) != a || rv(app.allocatedPlaceholder, i) != h {
			ok = false
		}
		for l := 0; l < 3; l++ {
			q := w.c[l]
			if rv(q.pending, i) != p+w.xPend[l][i] || rv(q.allocatedResource, i) != a+h+w.xAll[l][i] {
				ok = false
			}
		}
	}
	return ok
}

// ---- shim predicate plugin and node iterator provided by the harness ----

type vPlugin struct {
	deny map[string]bool // allocationKey|nodeID -> refuse
}

func (p *vPlugin) UpdateAllocation(*si.AllocationResponse) error   { return nil }
func (p *vPlugin) UpdateApplication(*si.ApplicationResponse) error { return nil }
func (p *vPlugin) UpdateNode(*si.NodeResponse) error               { return nil }
func (p *vPlugin) Predicates(args *si.PredicatesArgs) error {
	if p.deny[args.AllocationKey+"|"+args.NodeID] {
		return fmt.Errorf("predicate refused")
	}
	return nil
}
func (p *vPlugin) PreemptionPredicates(*si.PreemptionPredicatesArgs) *si.PreemptionPredicatesResponse {
	return nil
}
func (p *vPlugin) SendEvent([]*si.EventRecord)                                           {}
func (p *vPlugin) UpdateContainerSchedulingState(*si.UpdateContainerSchedulingStateRequest) {}
func (p *vPlugin) GetStateDump() (string, error)                                         { return "", nil }

// vRegisterPlugin installs a plugin whose verdict per (ask, node) is symbolic
func vRegisterPlugin(keys []string, nodes []string) *vPlugin {
	p := &vPlugin{deny: map[string]bool{}}
	for _, k := range keys {
		for _, n := range nodes {
			if vBool("deny." + k + "." + n) {
				p.deny[k+"|"+n] = true
			}
		}
	}
	plugins.RegisterSchedulerPlugin(p)
	return p
}

// relByKey: how many release announcements named this allocation key
func (r *vRecorder) relByKey(key string) int {
	n := 0
	for _, rel := range r.released {
		if rel.AllocationKey == key {
			n++
		}
	}
	return n
}

type vNodeIter struct{ nodes []*Node }

func (it *vNodeIter) ForEachNode(f func(*Node) bool) {
	for _, n := range it.nodes {
		if !f(n) {
			return
		}
	}
}
