//go:build verif

package objects

import (
	"github.com/apache/yunikorn-core/pkg/common/security"
	"github.com/apache/yunikorn-core/pkg/rmproxy/rmevent"
	"github.com/apache/yunikorn-scheduler-interface/lib/go/si"
)

// vRecorder stands for the shim side of the event handler: it records what the core announces
// and answers release notifications (natively from a goroutine, in the engine the receive yields an arbitrary result).
type vRecorder struct {
	released []*si.AllocationRelease
	appUpd   []*si.UpdatedApplication
	other    int
}

func (r *vRecorder) HandleEvent(ev interface{}) {
	switch e := ev.(type) {
	case *rmevent.RMReleaseAllocationEvent:
		r.released = append(r.released, e.ReleasedAllocations...)
		if e.Channel != nil {
			c := e.Channel
			go func() { c <- &rmevent.Result{Succeeded: true} }()
		}
	case *rmevent.RMApplicationUpdateEvent:
		r.appUpd = append(r.appUpd, e.UpdatedApplications...)
	default:
		r.other++
	}
}

// vApp: an application registered in leaf queue q, built by the real constructor
func vApp(id string, q *Queue, rec *vRecorder) *Application {
	app := NewApplication(&si.AddApplicationRequest{ApplicationID: id, QueueName: q.QueuePath, PartitionName: "default"},
		security.UserGroup{User: "u1", Groups: []string{"g1"}}, rec, "rm-1")
	app.queue = q
	app.sendStateChangeEvents = false
	q.applications[id] = app
	return app
}

var vAppStates = []string{"New", "Accepted", "Running", "Rejected", "Completing", "Completed", "Failing", "Failed", "Expired", "Resuming"}
