//go:build verif

package objects

import "github.com/apache/yunikorn-scheduler-interface/lib/go/si"

// C09: reservations — the application's, the node's and the queue's view describe the same set

type vResW struct {
	w     *vAppW
	nodes [2]*Node
	on    [2]int // per ask: 0 = not reserved, 1 = node-1, 2 = node-2
}

func vPlainNode(id string) *Node {
	n := vNode(id).n
	n.NodeID = id
	return n
}

// vResWorld: app-1 with two asks, two nodes, an arbitrary consistent set of reservations
func vResWorld(states ...string) *vResW {
	r := &vResW{w: vAppWorld(states...)}
	r.nodes[0], r.nodes[1] = vPlainNode("node-1"), vPlainNode("node-2")
	cnt := 0
	for j := 0; j < 2; j++ {
		a := r.w.ask[j]
		if vBool("a" + vAskKeys[j] + ".required") {
			a.requiredNode = vStr("a"+vAskKeys[j]+".reqnode", "node-1", "node-2")
		}
		r.on[j] = vChoice("reserved."+vAskKeys[j], 3)
		if r.on[j] == 0 {
			continue
		}
		n := r.nodes[r.on[j]-1]
		// (e) only an outstanding, unallocated ask holds a reservation; a required-node ask only on its node
		vAssume(r.w.has[j] && !a.allocated)
		vAssume(a.requiredNode == "" || a.requiredNode == n.NodeID)
		r.w.app.reservations[a.allocationKey] = &reservation{allocKey: a.allocationKey, nodeID: n.NodeID, app: r.w.app, node: n, alloc: a}
		n.reservations[a.allocationKey] = &reservation{allocKey: a.allocationKey, appID: "app-1", app: r.w.app, node: n, alloc: a}
		cnt++
	}
	// (d) a node carries at most one reservation unless all of them are required-node asks
	if r.on[0] != 0 && r.on[0] == r.on[1] {
		vAssume(r.w.ask[0].requiredNode != "" && r.w.ask[1].requiredNode != "")
	}
	if cnt > 0 {
		r.w.c[0].reservedApps["app-1"] = cnt
	}
	return r
}

func resInv(r *vResW) bool {
	ok := true
	app := r.w.app
	// (a) app view ⊆ node view, same objects
	for key, res := range app.reservations {
		if res == nil || res.node == nil || res.alloc == nil || res.allocKey != key || res.alloc.allocationKey != key {
			ok = false
			continue
		}
		nr, found := res.node.reservations[key]
		if !found || nr.alloc != res.alloc || nr.app != app {
			ok = false
		}
		// (e)
		if app.requests[key] != res.alloc || res.alloc.allocated {
			ok = false
		}
	}
	// (a) node view ⊆ app view
	total := 0
	for i := 0; i < 2; i++ {
		n := r.nodes[i]
		normal, cnt := 0, 0
		for key, nr := range n.reservations {
			if nr == nil || nr.alloc == nil {
				ok = false
				continue
			}
			cnt++
			if nr.alloc.requiredNode == "" {
				normal++
			}
			ar, found := app.reservations[key]
			if !found || ar.node != n {
				ok = false
			}
		}
		// (d)
		if normal > 0 && cnt > 1 {
			ok = false
		}
		total += cnt
	}
	// (b) queue counter
	if total != len(app.reservations) {
		ok = false
	}
	qc, has := r.w.c[0].reservedApps["app-1"]
	if has != (total > 0) || (has && qc != total) {
		ok = false
	}
	return ok
}

// the partition's reserve(): application + node + queue
func VerifC09_Reserve() {
	r := vResWorld("Accepted", "Running")
	vAssume(resInv(r))
	j := vChoice("ask", 2)
	ni := vChoice("node", 2)
	vSplit("ask")
	vSplit("node")
	a, n := r.w.ask[0], r.nodes[0]
	if j == 1 {
		a = r.w.ask[1]
	}
	if ni == 1 {
		n = r.nodes[1]
	}
	preOn := r.on[0]
	if j == 1 {
		preOn = r.on[1]
	}
	err := r.w.app.Reserve(n, a)
	if err == nil {
		r.w.c[0].Reserve("app-1") // the partition's part
		vAssert(preOn == 0, "R an ask holds at most one reservation")
		vAssert(!a.allocated && r.w.app.requests[a.allocationKey] == a, "R only an outstanding ask can reserve")
		for i := 0; i < vNK(); i++ {
			vAssert(rv(a.allocatedResource, i) <= vmax0(rv(n.totalResource, i)), "R a node is reserved only for an ask that fits its capacity")
		}
	}
	vAssert(resInv(r), "R reserving keeps the application, node and queue views identical and nodes exclusive")
	vReach("end")
}

func VerifC09_UnReserve() {
	r := vResWorld("Accepted", "Running")
	vAssume(resInv(r))
	j := vChoice("ask", 2)
	ni := vChoice("node", 2)
	vSplit("ask")
	a, n := r.w.ask[0], r.nodes[0]
	if j == 1 {
		a = r.w.ask[1]
	}
	if ni == 1 {
		n = r.nodes[1]
	}
	num := r.w.app.UnReserve(n, a)
	r.w.c[0].UnReserve("app-1", num) // the partition's part
	vAssert(resInv(r), "R unreserving keeps the application, node and queue views identical")
	_, still := r.w.app.reservations[a.allocationKey]
	vAssert(!still, "R after unreserve the ask holds no reservation")
	vReach("end")
}

func VerifC09_RemoveAskUnreserves() {
	r := vResWorld("Accepted", "Running", "Completing")
	vAssume(resInv(r))
	key := vStr("key", "ask-1", "ask-2", "unknown", "")
	vSplit("key")
	r.w.app.removeAsksInternal(key, si.EventRecord_REQUEST_CANCEL)
	vAssert(resInv(r), "R removing asks keeps the three views identical")
	if key == "" {
		vAssert(len(r.w.app.reservations) == 0 && len(r.nodes[0].reservations) == 0 && len(r.nodes[1].reservations) == 0, "R removing all asks removes every reservation")
	} else {
		_, still := r.w.app.reservations[key]
		vAssert(!still, "R a removed ask holds no reservation")
	}
	vReach("end")
}

// a required-node ask cancels the normal reservations on its node (own application case)
func VerifC09_CancelReservations() {
	r := vResWorld("Accepted", "Running")
	vAssume(resInv(r))
	ni := vChoice("node", 2)
	vSplit("node")
	n := r.nodes[0]
	if ni == 1 {
		n = r.nodes[1]
	}
	pre := len(n.reservations)
	released := r.w.app.cancelReservations(n.GetReservations())
	vAssert(resInv(r), "R cancelling reservations for a required-node ask keeps the three views identical")
	for _, nr := range n.reservations {
		vAssert(nr.alloc.requiredNode != "", "R only required-node reservations survive the cancellation")
	}
	vAssert(released <= pre, "R never more reservations released than existed")
	vReach("end")
}
