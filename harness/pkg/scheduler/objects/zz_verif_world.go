//go:build verif

package objects

import (
	"github.com/apache/yunikorn-core/pkg/common/resources"
	"github.com/apache/yunikorn-core/pkg/events"
	schedEvt "github.com/apache/yunikorn-core/pkg/scheduler/objects/events"
)

// ---- shared world builders for the objects package harnesses ----

var vKeys = []string{"k0", "k1", "k2"}

func vNK() int {
	if vTier() > 0 {
		return 3
	}
	return 2
}

const vQMax = int64(1) << 40

// vResQ: non-nil sparse vector, values in [0, 2^40]
func vResQ(name string) *resources.Resource {
	r := resources.NewResource()
	for i := 0; i < vNK(); i++ {
		if vBool(name + "." + vKeys[i] + ".def") {
			r.Resources[vKeys[i]] = resources.Quantity(vRange(name+"."+vKeys[i], 0, vQMax))
		}
	}
	return r
}

// vResS: non-nil sparse vector, signed values in [-2^40, 2^40]
func vResS(name string) *resources.Resource {
	r := resources.NewResource()
	for i := 0; i < vNK(); i++ {
		if vBool(name + "." + vKeys[i] + ".def") {
			r.Resources[vKeys[i]] = resources.Quantity(vRange(name+"."+vKeys[i], -vQMax, vQMax))
		}
	}
	return r
}

// vResQN: like vResQ but may be nil
func vResQN(name string) *resources.Resource {
	if vBool(name + ".nil") {
		return nil
	}
	return vResQ(name)
}

// rv: value of a type in a vector, missing or nil = 0
func rv(r *resources.Resource, i int) int64 {
	if r == nil {
		return 0
	}
	return int64(r.Resources[vKeys[i]])
}

func rhas(r *resources.Resource, i int) bool {
	if r == nil {
		return false
	}
	_, ok := r.Resources[vKeys[i]]
	return ok
}

type vVec [3]int64

func vecOf(r *resources.Resource) vVec {
	var v vVec
	for i := 0; i < 3; i++ {
		v[i] = rv(r, i)
	}
	return v
}

type vSparse struct {
	isNil bool
	def   [3]bool
	val   [3]int64
}

func sparseOf(r *resources.Resource) vSparse {
	var s vSparse
	if r == nil {
		s.isNil = true
		return s
	}
	for i := 0; i < 3; i++ {
		s.def[i] = rhas(r, i)
		s.val[i] = rv(r, i)
	}
	return s
}

func sameSparse(a, b vSparse) bool {
	if a.isNil != b.isNil {
		return false
	}
	for i := 0; i < 3; i++ {
		if a.def[i] != b.def[i] || a.val[i] != b.val[i] {
			return false
		}
	}
	return true
}

func vAllocation(name, key string) *Allocation {
	return &Allocation{
		allocationKey:     key,
		applicationID:     "app-1",
		allocatedResource: vResQ(name + ".res"),
		foreign:           vBool(name + ".foreign"),
		allocated:         true,
		nodeID:            "node-1",
	}
}

// vNode: a node with up to two allocations in an arbitrary state satisfying the ledger invariant.
type vNodeWorld struct {
	n      *Node
	a      [2]*Allocation
	has    [2]bool
	extra  vVec // occupied not explained by listed foreign allocations (>= 0)
}

func vNode(name string) *vNodeWorld {
	w := &vNodeWorld{}
	n := &Node{
		NodeID:       "node-1",
		allocations:  map[string]*Allocation{},
		reservations: map[string]*reservation{},
		schedulable:  vBool(name + ".schedulable"),
		nodeEvents:   schedEvt.NewNodeEvents(events.GetEventSystem()),
	}
	n.totalResource = vResQ(name + ".total")
	n.allocatedResource = resources.NewResource()
	n.occupiedResource = resources.NewResource()
	n.availableResource = resources.NewResource()
	keys := []string{"alloc-1", "alloc-2"}
	for j := 0; j < 2; j++ {
		w.a[j] = vAllocation(name+".a"+keys[j], keys[j])
		w.has[j] = vBool(name + ".has." + keys[j])
		if w.has[j] {
			n.allocations[keys[j]] = w.a[j]
		}
	}
	for i := 0; i < vNK(); i++ {
		k := vKeys[i]
		var al, oc int64
		for j := 0; j < 2; j++ {
			if w.has[j] {
				if w.a[j].foreign {
					oc += rv(w.a[j].allocatedResource, i)
				} else {
					al += rv(w.a[j].allocatedResource, i)
				}
			}
		}
		w.extra[i] = vRange(name+".occextra."+k, 0, vQMax)
		oc += w.extra[i]
		// allocated / occupied / available are sparse: a zero may be stored or pruned
		if al != 0 || vBool(name+".alloc0."+k) {
			n.allocatedResource.Resources[k] = resources.Quantity(al)
		}
		if oc != 0 || vBool(name+".occ0."+k) {
			n.occupiedResource.Resources[k] = resources.Quantity(oc)
		}
		av := rv(n.totalResource, i) - al - oc
		if av != 0 || vBool(name+".avail0."+k) {
			n.availableResource.Resources[k] = resources.Quantity(av)
		}
	}
	w.n = n
	return w
}

// nodeInv: NodeInv of DESIGN §3 relative to the ghost "extra" occupied amount
func nodeInv(n *Node, extra vVec) bool {
	if n.totalResource == nil || n.allocatedResource == nil || n.occupiedResource == nil || n.availableResource == nil {
		return false
	}
	ok := true
	for i := 0; i < vNK(); i++ {
		var al, oc int64
		for key, a := range n.allocations {
			if a == nil || a.allocationKey != key {
				ok = false
				continue
			}
			if a.foreign {
				oc += rv(a.allocatedResource, i)
			} else {
				al += rv(a.allocatedResource, i)
			}
		}
		if rv(n.allocatedResource, i) != al {
			ok = false
		}
		if rv(n.occupiedResource, i) != oc+extra[i] {
			ok = false
		}
		if rv(n.availableResource, i) != rv(n.totalResource, i)-rv(n.allocatedResource, i)-rv(n.occupiedResource, i) {
			ok = false
		}
	}
	return ok
}

type vNodeSnap struct {
	total, occ, alloc, avail vVec
	keys                     [3]bool
}

func snapNode(n *Node) vNodeSnap {
	s := vNodeSnap{total: vecOf(n.totalResource), occ: vecOf(n.occupiedResource), alloc: vecOf(n.allocatedResource), avail: vecOf(n.availableResource)}
	_, s.keys[0] = n.allocations["alloc-1"]
	_, s.keys[1] = n.allocations["alloc-2"]
	_, s.keys[2] = n.allocations["alloc-new"]
	return s
}

func sameNodeSnap(a, b vNodeSnap) bool {
	return a.total == b.total && a.occ == b.occ && a.alloc == b.alloc && a.avail == b.avail && a.keys == b.keys
}

func vmax0(a int64) int64 {
	if a < 0 {
		return 0
	}
	return a
}

// ---- queue chains ----

// vQueue builds a queue with the bookkeeping maps of newBlankQueue; usage and limits are symbolic.
func vQueue(name, path string, parent *Queue, leaf bool) *Queue {
	q := newBlankQueue()
	q.Name = name
	q.QueuePath = path
	q.parent = parent
	q.isLeaf = leaf
	q.isManaged = true
	q.queueEvents = schedEvt.NewQueueEvents(events.GetEventSystem())
	if parent != nil {
		parent.children[name] = q
	}
	q.allocatedResource = vResQ(path + ".alloc")
	q.maxResource = vResQN(path + ".max")
	return q
}

// vChain: root -> root.p -> root.p.leaf; returns leaf-first slice
func vChain() []*Queue {
	root := vQueue("root", "root", nil, false)
	p := vQueue("p", "root.p", root, false)
	leaf := vQueue("leaf", "root.p.leaf", p, true)
	return []*Queue{leaf, p, root}
}

func resourcesNew() *resources.Resource { return resources.NewResource() }
func resQ(v int64) resources.Quantity   { return resources.Quantity(v) }
func isZeroRes(r *resources.Resource) bool {
	for i := 0; i < 3; i++ {
		if rv(r, i) != 0 {
			return false
		}
	}
	return true
}
