//go:build verif

package objects

import "github.com/apache/yunikorn-core/pkg/common/resources"

func chainSnap(c []*Queue) [3]vVec {
	var s [3]vVec
	for l := 0; l < 3; l++ {
		s[l] = vecOf(c[l].allocatedResource)
	}
	return s
}

// Q1: TryIncAllocatedResource is atomic over the chain and never takes any level above its maximum
func VerifC02_TryIncAllocatedResource() {
	c := vChain()
	alloc := vResQ("ask")
	pre := chainSnap(c)
	var preMax [3]vSparse
	for l := 0; l < 3; l++ {
		preMax[l] = sparseOf(c[l].maxResource)
	}
	err := c[0].TryIncAllocatedResource(alloc)
	post := chainSnap(c)
	if err != nil {
		vAssert(post == pre, "Q1 a refused increment changes no level (atomic)")
	} else {
		for l := 0; l < 3; l++ {
			for i := 0; i < vNK(); i++ {
				vAssert(post[l][i] == pre[l][i]+rv(alloc, i), "Q1 an accepted increment is applied to every level")
				if !rhas(alloc, i) {
					continue
				}
				isRoot := l == 2
				if isRoot {
					// a type the root maximum lacks is a type no node provides: only 0 fits
					lim := int64(0)
					if !preMax[l].isNil && preMax[l].def[i] {
						lim = vmax0(preMax[l].val[i])
					}
					vAssert(post[l][i] <= lim, "Q1 the root never exceeds the registered capacity, unregistered types cannot be allocated")
				} else if !preMax[l].isNil && preMax[l].def[i] {
					vAssert(post[l][i] <= vmax0(preMax[l].val[i]), "Q1 no queue on the path exceeds its maximum on a type the maximum defines")
				}
			}
		}
	}
	for l := 0; l < 3; l++ {
		vAssert(sameSparse(sparseOf(c[l].maxResource), preMax[l]), "Q1 limits are not modified by an allocation")
	}
	vReach("end")
}

// Q2: an ask that fits the headroom passes the per-level test of every non-root level,
// and of the root when the root maximum defines every asked type
func VerifC02_HeadroomSound() {
	c := vChain()
	ask := vResQ("ask")
	for i := 0; i < vNK(); i++ {
		vAssume(!rhas(ask, i) || rv(ask, i) > 0)
	}
	pre := chainSnap(c)
	hr := c[0].getHeadRoom()
	vAssert(chainSnap(c) == pre, "Q2 computing the headroom changes nothing")
	if hr.FitInMaxUndef(ask) {
		for l := 0; l < 3; l++ {
			m := c[l].maxResource
			for i := 0; i < vNK(); i++ {
				if !rhas(ask, i) {
					continue
				}
				if l == 2 {
					if rhas(m, i) {
						vAssert(pre[l][i]+rv(ask, i) <= vmax0(rv(m, i)), "Q2 fits the headroom implies within the root maximum on registered types")
					}
				} else if rhas(m, i) {
					vAssert(pre[l][i]+rv(ask, i) <= vmax0(rv(m, i)), "Q2 fits the headroom implies within every queue maximum on the path")
				}
			}
		}
	}
	vReach("end")
}

// Q2b: the effective maximum of a queue is never looser than its parent's
func VerifC02_EffectiveMaxMonotone() {
	c := vChain()
	for l := 0; l < 2; l++ {
		child := c[l].GetMaxResource()
		par := c[l+1].GetMaxResource()
		for i := 0; i < vNK(); i++ {
			if rhas(par, i) {
				vAssert(rhas(child, i) && rv(child, i) <= rv(par, i), "Q2 the effective maximum of a queue is never looser than its parent's")
			}
			if rhas(c[l].maxResource, i) {
				vAssert(rhas(child, i) && rv(child, i) <= rv(c[l].maxResource, i), "Q2 the effective maximum honours the queue's own maximum")
			}
		}
	}
	vReach("end")
}

// Q5: the root maximum follows the registered capacity
func VerifC02_SetMaxResourceRoot() {
	c := vChain()
	total := vResQN("total")
	preP := sparseOf(c[1].maxResource)
	c[2].SetMaxResource(total)
	c[1].SetMaxResource(total)
	vAssert(sameSparse(sparseOf(c[1].maxResource), preP), "Q5 SetMaxResource is ignored on a non-root queue")
	anyPos := false
	for i := 0; i < vNK(); i++ {
		if rv(total, i) > 0 {
			anyPos = true
		}
	}
	if anyPos {
		for i := 0; i < vNK(); i++ {
			vAssert(rv(c[2].maxResource, i) == rv(total, i), "Q5 the root maximum equals the registered capacity")
		}
	} else {
		vAssert(c[2].maxResource == nil, "Q5 without registered capacity the root has no maximum")
	}
	_ = resources.Zero
	vReach("end")
}
