//go:build verif

package objects

import (
	"github.com/apache/yunikorn-core/pkg/common/resources"
	"github.com/apache/yunikorn-scheduler-interface/lib/go/si"
)

// C01 N0: constructor establishes the node ledger invariant
func VerifC01_NewNode() {
	total := vResQ("total")
	proto := &si.NodeInfo{NodeID: "node-1", SchedulableResource: total.ToProto()}
	n := NewNode(proto)
	vAssert(n != nil && nodeInv(n, vVec{}), "N0 a new node satisfies the ledger invariant")
	for i := 0; i < vNK(); i++ {
		vAssert(rv(n.availableResource, i) == rv(total, i) && rv(n.allocatedResource, i) == 0, "N0 a new node has available = capacity and nothing allocated")
	}
	vAssert(n.schedulable, "N0 a new node is schedulable")
	vReach("end")
}

// C01 N1/N2: the node re-check under the lock admits only what fits, refusal leaves the node untouched
func VerifC01_TryAddAllocation() {
	w := vNode("n")
	a := vAllocation("new", "alloc-new")
	vAssume(nodeInv(w.n, w.extra))
	pre := snapNode(w.n)
	ok := w.n.TryAddAllocation(a)
	vAssert(nodeInv(w.n, w.extra), "N1 TryAddAllocation preserves the ledger invariant")
	post := snapNode(w.n)
	for i := 0; i < vNK(); i++ {
		if ok && rhas(a.allocatedResource, i) {
			vAssert(rv(a.allocatedResource, i) <= vmax0(pre.avail[i]), "N2 an allocation is bound only if it fitted in the available resources")
		}
		if ok && pre.avail[i] >= 0 {
			vAssert(post.avail[i] >= 0, "N2 a scheduler-side add never makes available negative")
		}
	}
	if ok {
		vAssert(post.keys[2] && w.n.allocations["alloc-new"] == a, "N2 a bound allocation is listed on the node")
	} else {
		vAssert(sameNodeSnap(pre, post), "N2 a refused allocation leaves the node untouched")
	}
	vReach("end")
}

func VerifC01_AddAllocationForced() {
	w := vNode("n")
	a := vAllocation("new", "alloc-new")
	vAssume(nodeInv(w.n, w.extra))
	pre := snapNode(w.n)
	w.n.AddAllocation(a)
	post := snapNode(w.n)
	vAssert(nodeInv(w.n, w.extra), "N1 AddAllocation (RM-forced) preserves the ledger invariant")
	for i := 0; i < vNK(); i++ {
		vAssert(post.avail[i] == pre.avail[i]-rv(a.allocatedResource, i), "N1 a forced add lowers available by exactly the allocation")
	}
	vAssert(post.keys[2], "N1 a forced allocation is listed on the node")
	vReach("end")
}

func VerifC01_RemoveAllocation() {
	w := vNode("n")
	vAssume(nodeInv(w.n, w.extra))
	key := vStr("key", "alloc-1", "alloc-2", "unknown", "")
	pre := snapNode(w.n)
	removed := w.n.RemoveAllocation(key)
	post := snapNode(w.n)
	vAssert(nodeInv(w.n, w.extra), "N1 RemoveAllocation preserves the ledger invariant")
	known := (key == "alloc-1" && pre.keys[0]) || (key == "alloc-2" && pre.keys[1])
	vAssert((removed != nil) == known, "N1 RemoveAllocation returns the allocation exactly when the key was bound here")
	if !known {
		vAssert(sameNodeSnap(pre, post), "N1 removing an unknown key leaves the node untouched")
	} else {
		vAssert(removed.allocationKey == key, "N1 the removed allocation is the one asked for")
		for i := 0; i < vNK(); i++ {
			vAssert(post.avail[i] == pre.avail[i]+rv(removed.allocatedResource, i), "N1 removal returns exactly the allocation's resources")
			if pre.avail[i] >= 0 {
				vAssert(post.avail[i] >= 0, "N1 removal never makes available negative")
			}
		}
	}
	vReach("end")
}

func VerifC01_ReplaceAllocation() {
	w := vNode("n")
	vAssume(nodeInv(w.n, w.extra))
	// placeholder alloc-1 (non-foreign, present) is replaced by a real allocation of size <= placeholder
	vAssume(w.has[0] && !w.a[0].foreign)
	repl := vAllocation("new", "alloc-new")
	vAssume(!repl.foreign)
	delta := resources.Sub(repl.allocatedResource, w.a[0].allocatedResource)
	pre := snapNode(w.n)
	w.n.ReplaceAllocation("alloc-1", repl, delta)
	post := snapNode(w.n)
	vAssert(nodeInv(w.n, w.extra), "N1 ReplaceAllocation preserves the ledger invariant")
	vAssert(!post.keys[0] && post.keys[2], "N1 after a replacement the placeholder is gone and the real allocation is listed")
	for i := 0; i < vNK(); i++ {
		if rv(repl.allocatedResource, i) <= rv(w.a[0].allocatedResource, i) && pre.avail[i] >= 0 {
			vAssert(post.avail[i] >= 0, "N1 replacing by a smaller allocation never makes available negative")
		}
	}
	vReach("end")
}

func VerifC01_SetCapacity() {
	w := vNode("n")
	vAssume(nodeInv(w.n, w.extra))
	nc := vResQ("cap")
	old := vecOf(w.n.totalResource)
	delta := w.n.SetCapacity(nc)
	vAssert(nodeInv(w.n, w.extra), "N1 SetCapacity preserves the ledger invariant")
	for i := 0; i < vNK(); i++ {
		vAssert(rv(w.n.totalResource, i) == rv(nc, i), "N1 SetCapacity installs the new capacity")
		// the partition total and with it the root queue maximum are maintained by adding this delta
		vAssert(rv(delta, i) == rv(nc, i)-old[i], "N1 SetCapacity reports exactly new minus old capacity for every resource type, dropped types included (the root maximum is the sum of the node capacities)")
	}
	vReach("end")
}

func VerifC01_UpdateAllocatedResource() {
	// in-place resource change of alloc-1, as UpdateAllocationResources does it: alloc resource swapped, node told the delta
	w := vNode("n")
	vAssume(nodeInv(w.n, w.extra))
	vAssume(w.has[0] && !w.a[0].foreign)
	nr := vResQ("newres")
	delta := resources.Sub(nr, w.a[0].allocatedResource)
	w.a[0].SetAllocatedResource(nr)
	w.n.UpdateAllocatedResource(delta)
	vAssert(nodeInv(w.n, w.extra), "N1 UpdateAllocatedResource with the matching delta preserves the ledger invariant")
	vReach("end")
}

func VerifC01_UpdateForeignAllocation() {
	w := vNode("n")
	vAssume(nodeInv(w.n, w.extra))
	vAssume(w.has[0] && w.a[0].foreign)
	upd := vAllocation("upd", "alloc-1")
	vAssume(upd.foreign)
	prev := w.n.UpdateForeignAllocation(upd)
	vAssert(prev == w.a[0], "N1 UpdateForeignAllocation returns the previous allocation")
	vAssert(nodeInv(w.n, w.extra), "N1 UpdateForeignAllocation preserves the ledger invariant")
	vReach("end")
}

// N3 (first gate): preAllocateCheck passes only for a strictly positive ask that fits and a node not reserved for someone else
func VerifC01_PreAllocateCheck() {
	w := vNode("n")
	vAssume(nodeInv(w.n, w.extra))
	res := vResQ("ask")
	key := vStr("key", "ask-1", "ask-2", "")
	if vBool("reserved1") {
		w.n.reservations["ask-1"] = &reservation{allocKey: "ask-1", nodeID: "node-1"}
	}
	if vBool("reserved2") {
		w.n.reservations["ask-2"] = &reservation{allocKey: "ask-2", nodeID: "node-1"}
	}
	pre := snapNode(w.n)
	ok := w.n.preAllocateCheck(res, key)
	if ok {
		anyPos := false
		for i := 0; i < vNK(); i++ {
			vAssert(rv(res, i) <= vmax0(pre.avail[i]), "N3 the pre-check passes only if the ask fits the available resources")
			if rv(res, i) > 0 {
				anyPos = true
			}
		}
		vAssert(anyPos, "N3 the pre-check refuses an all-zero ask")
		_, r1 := w.n.reservations["ask-1"]
		_, r2 := w.n.reservations["ask-2"]
		if r1 || r2 {
			vAssert((key == "ask-1" && r1) || (key == "ask-2" && r2), "N3 a reserved node is only given to an ask holding a reservation on it")
		}
	}
	vAssert(sameNodeSnap(pre, snapNode(w.n)), "N3 the pre-check does not change the node")
	vReach("end")
}
