//go:build verif

package objects

import (
	"time"

	"github.com/apache/yunikorn-core/pkg/common/resources"
)

// K5: the quota-preemption start time keeps the configured delay. A start time is pending from an earlier quota
// change at instant t0 with the old delay; the quota (and possibly the delay) changes again while usage stays above
// the maximum: afterwards the start time is t0 + the delay now configured, never earlier.
var vDelays = []time.Duration{30 * time.Minute, time.Hour, 2 * time.Hour}

func VerifC08_QuotaPreemptionDelayKept() {
	vPanics(false)
	q := newBlankQueue()
	q.Name, q.QueuePath, q.isManaged, q.isLeaf = "leaf", "root.leaf", true, true
	oldDelay := vDelays[vChoice("delay.old", len(vDelays))]
	newDelay := vDelays[vChoice("delay.new", len(vDelays))]
	vSplit("delay.old")
	vSplit("delay.new")
	t0 := time.Now()
	q.quotaPreemptionStartTime = t0.Add(oldDelay)
	q.quotaPreemptionDelay = newDelay
	q.allocatedResource = resources.NewResourceFromMap(map[string]resources.Quantity{"k0": 100})
	// the maximum moves between two values below the usage: lowered, raised or unchanged
	maxVals := []resources.Quantity{40, 60, 80}
	oldMax := resources.NewResourceFromMap(map[string]resources.Quantity{"k0": maxVals[vChoice("max.old", 3)]})
	q.maxResource = resources.NewResourceFromMap(map[string]resources.Quantity{"k0": maxVals[vChoice("max.new", 3)]})
	vSplit("max.old")
	vSplit("max.new")
	q.setPreemptionTime(oldMax, oldDelay)
	vAssert(!q.quotaPreemptionStartTime.IsZero(), "K5 a pending quota preemption stays pending while usage is above the maximum")
	vAssert(q.quotaPreemptionStartTime.Equal(t0.Add(newDelay)), "K5 after a further quota or delay change the pending quota preemption starts exactly the configured delay after the first change, not earlier")
	vReach("end")
}
