//go:build verif

package objects

// Q6: a maximum handed to the queue by the configuration is in force exactly as configured (explicit zero entries
// included) and the next allocation is checked against it.
func VerifC02_ApplyConfMaxInForce() {
	c := vChain()
	q := c[1] // a non-root queue: its maximum comes from the configuration only
	newMax := vResQ("newmax")
	q.setResources(nil, newMax)
	pos := false
	for i := 0; i < vNK(); i++ {
		if rv(newMax, i) > 0 {
			pos = true
		}
	}
	got := sparseOf(q.maxResource)
	want := sparseOf(newMax)
	if pos {
		vAssert(sameSparse(got, want), "Q6 a configured maximum is in force exactly as configured, explicit zero entries included")
	} else {
		vAssert(q.maxResource == nil, "Q6 a configuration without a positive maximum removes the maximum")
	}
	// the next allocation through this queue is checked against the new maximum
	alloc := vResQ("ask")
	pre := chainSnap(c)
	err := c[0].TryIncAllocatedResource(alloc)
	post := chainSnap(c)
	if err == nil && pos {
		for i := 0; i < vNK(); i++ {
			if rhas(alloc, i) && rhas(newMax, i) {
				vAssert(post[1][i] <= vmax0(rv(newMax, i)), "Q6 an accepted allocation stays within the newly configured maximum on every type it defines")
			}
		}
	}
	if err != nil {
		vAssert(post == pre, "Q6 a refused increment changes no level")
	}
	vReach("end")
}
