//go:build verif

package objects

import "time"

// G4: the completing timeout of an application that still holds a placeholder. Whatever the state of the placeholder
// timer and of the placeholder (live, or already being replaced / released), the application is not completed while
// the placeholder is still allocated: a live placeholder is released and announced with TIMEOUT, and the application
// stays Completing until the shim confirms ("no placeholder outlives its application").
func VerifC06_CompletingTimeoutKeepsAppWhilePlaceholderAllocated() {
	vPanics(false)
	vUnwind(24)
	g := vGangWorld()
	app, ph := g.app, g.ph
	app.stateMachine.SetState("Completing")
	// the real ask of the gang world is bound (a swap in flight) or absent; nothing is pending
	delete(app.requests, "ask-2")
	app.sortedRequests = sortedRequests{}
	app.pending = resourcesNew()
	for l := 0; l < 3; l++ {
		g.c[l].pending = resourcesNew()
	}
	phPos := false
	for i := 0; i < vNK(); i++ {
		if rv(ph.allocatedResource, i) > 0 {
			phPos = true
		}
	}
	vAssume(phPos)
	if vBool("ph.timer.armed") {
		app.placeholderTimer = &time.Timer{} // armed as far as this path can tell; never stopped here
	}
	phWasLive := !ph.released && !ph.preempted
	app.timeoutStateTimer("Completing", CompleteApplication)()
	vAssert(app.stateMachine.Current() == "Completing", "G4 the completing timeout does not complete an application that still holds an allocated placeholder")
	vAssert(app.allocations["ask-1"] == ph, "G4 the placeholder stays booked until the shim confirms its release")
	if phWasLive {
		vAssert(ph.released && g.rec.relByKey("ask-1") == 1, "G4 a live placeholder is released and announced when the completing timeout fires")
	} else {
		vAssert(g.rec.relByKey("ask-1") == 0, "G4 a placeholder that is already on its way out is not announced again by the completing timeout")
	}
	vReach("end")
}
