//go:build verif

package objects

// R1 (commit time): a reservation is only created for an ask that is still outstanding on the application. The
// scheduling decision and its commit are separated by the RM's own requests: the ask may be gone by then.
func VerifC09_ReserveRequiresOutstandingAsk() {
	vPanics(false)
	rec := &vRecorder{}
	c := vChain()
	app := vApp("app-1", c[0], rec)
	n1 := vPlainNode("node-1")
	vAssume(len(n1.reservations) == 0)
	ask := vAsk("a1", "ask-1", false)
	registered := vBool("ask.registered")
	vSplit("ask.registered")
	if registered {
		app.requests["ask-1"] = ask
	}
	err := app.Reserve(n1, ask)
	if !registered {
		vAssert(err != nil, "R1 reserving for an ask that is no longer registered on the application is refused")
		vAssert(len(app.reservations) == 0 && len(n1.reservations) == 0, "R1 a refused reservation leaves no trace on the application or the node")
	} else if err == nil {
		vAssert(app.reservations["ask-1"] != nil && n1.reservations["ask-1"] != nil && app.reservations["ask-1"].node == n1, "R1 an accepted reservation is recorded on the application and on the node")
	} else {
		vAssert(len(app.reservations) == 0 && len(n1.reservations) == 0, "R1 a refused reservation leaves no trace on the application or the node")
	}
	vReach("end")
}
