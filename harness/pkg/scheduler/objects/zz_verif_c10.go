//go:build verif

package objects

import "github.com/apache/yunikorn-scheduler-interface/lib/go/si"

// C10: application life cycle. The real looplab/fsm code and the real transition table are executed.

func succState(from, to string) bool {
	switch from {
	case "New":
		return to == "Accepted" || to == "Rejected" || to == "Failing" || to == "Resuming"
	case "Accepted":
		return to == "Running" || to == "Completing" || to == "Failing" || to == "Resuming"
	case "Running":
		return to == "Completing" || to == "Failing"
	case "Completing":
		return to == "Running" || to == "Completed"
	case "Failing":
		return to == "Failed"
	case "Resuming":
		return to == "Accepted"
	case "Completed", "Failed", "Rejected":
		return to == "Expired"
	}
	return false
}

func vAppInState(rec *vRecorder) (*Application, []*Queue, string) {
	vUnwind(40) // fsm.Event scans its transition table (17 entries)
	c := vGateChain()
	app := vApp("app-1", c[0], rec)
	s := vStr("state", "New", "Accepted", "Running", "Rejected", "Completing", "Completed", "Failing", "Failed", "Expired", "Resuming")
	app.stateMachine.SetState(s)
	return app, c, s
}

// L1/L2: any event from any state moves only along the documented life cycle, and what the shim is told is the state reached
func VerifC10_EventClosure() {
	rec := &vRecorder{}
	app, c, s := vAppInState(rec)
	vAssume(gateInv(c))
	pre := gateSnap(c)
	ev := applicationEvent(vChoice("event", 6))
	err := app.HandleApplicationEvent(ev)
	post := app.stateMachine.Current()
	vAssert(post == s || succState(s, post), "L1 the application state only changes along the documented life cycle")
	if err != nil {
		vAssert(post == s, "L1 a refused event leaves the state unchanged")
	}
	if post != s || len(rec.appUpd) > 0 {
		if post == "Rejected" {
			vAssert(len(rec.appUpd) == 0, "L2 a rejection is not announced as an application update")
		} else {
			vAssert(len(rec.appUpd) == 1 && rec.appUpd[0].State == post && rec.appUpd[0].ApplicationID == "app-1", "L2 the shim is told exactly the state the application reached")
		}
	}
	// M4: the running count of every queue on the path follows entering/leaving Running
	for l := 0; l < 3; l++ {
		want := pre.running[l]
		if post == "Running" && s != "Running" {
			want++
			if c[l].maxRunningApps > 0 && want > c[l].maxRunningApps {
				want = c[l].maxRunningApps
			}
		}
		if s == "Running" && post != "Running" && want > 0 {
			want--
		}
		vAssert(c[l].runningApps == want, "M4 the running count changes exactly when the application enters or leaves Running")
	}
	vReach("end")
}

func VerifC10_FailAndReject() {
	rec := &vRecorder{}
	app, _, s := vAppInState(rec)
	if vBool("reject") {
		_ = app.RejectApplication("no queue")
		post := app.stateMachine.Current()
		vAssert(post == s || (s == "New" && post == "Rejected"), "L1 only a New application can be rejected")
	} else {
		app.FailApplication("failed by test")
		post := app.stateMachine.Current()
		vAssert(post == s || succState(s, post), "L1 failing an application follows the life cycle")
		vAssert(post == s || (post != "Completed" && post != "Running"), "L1 failing an application never completes or starts it")
	}
	vReach("end")
}

// L3: state/ledger agreement as a step invariant: an operation on asks or allocations moves the application to
// Completing only when it holds no asks, no real allocations and no placeholders; it never reaches Completed directly.
// one harness per operation: the merged state of three operations in one harness was 16 MB of SMT per query
func vC10Post(w *vAppW, pre string, op int) {
	post := w.app.stateMachine.Current()
	vAssert(post == pre || succState(pre, post), "L3 operations on asks and allocations follow the life cycle")
	vAssert(post != "Completed" && post != "Failed", "L3 no single ask/allocation operation terminates a live application")
	if post == "Completing" {
		vAssert(len(w.app.requests) == 0 || isZeroRes(w.app.pending), "L3 an application turns Completing only without pending asks")
		real := 0
		for _, a := range w.app.allocations {
			if !a.placeholder {
				real++
			}
		}
		vAssert(real == 0, "L3 an application turns Completing only when it holds no real allocation")
		if op == 0 {
			vAssert(len(w.app.allocations) == 0, "L3 removing asks turns an application Completing only when it holds no allocation at all, placeholders included")
		}
	}
	if op == 2 {
		vAssert(post != "Completing", "L3 adding an ask never leaves the application Completing")
	}
	vReach("end")
}

func VerifC10_CompletingOnlyWhenEmpty_RemoveAsks() {
	vPanics(false)
	w := vAppWorld("Accepted", "Running", "Resuming")
	vAssume(appInv(w))
	pre := w.app.stateMachine.Current()
	key := vStr("key", "ask-1", "ask-2", "")
	vSplit("key")
	w.app.removeAsksInternal(key, si.EventRecord_REQUEST_CANCEL)
	vC10Post(w, pre, 0)
}

func VerifC10_CompletingOnlyWhenEmpty_RemoveAllocation() {
	vPanics(false)
	w := vAppWorld("Accepted", "Running", "Resuming")
	vAssume(appInv(w))
	pre := w.app.stateMachine.Current()
	key := vStr("rkey", "ask-1", "ask-2")
	vSplit("rkey")
	w.app.removeAllocationInternal(key, si.TerminationType(vChoice("tt", 6)))
	vC10Post(w, pre, 1)
}

func VerifC10_CompletingOnlyWhenEmpty_AddAsk() {
	vPanics(false)
	w := vAppWorld("Accepted", "Running", "Resuming")
	vAssume(appInv(w))
	pre := w.app.stateMachine.Current()
	ask := vAsk("new", "ask-new", false)
	_ = w.app.AddAllocationAsk(ask)
	vC10Post(w, pre, 2)
}
