//go:build verif

package scheduler

import (
	"github.com/apache/yunikorn-core/pkg/common/resources"
	"github.com/apache/yunikorn-core/pkg/scheduler/objects"
	"github.com/apache/yunikorn-scheduler-interface/lib/go/si"
)

// C13: no SI request can crash the core or corrupt its state.
// Implicit run-time checks (nil dereference, index, division, type assertion, nil-map write) are obligations here.

// vSIRes: an arbitrary resource sub-message: unset, or sparse with zero / negative / positive values
func vSIRes(name string) *si.Resource {
	if vBool(name + ".unset") {
		return nil
	}
	r := &si.Resource{Resources: map[string]*si.Quantity{}}
	for i := 0; i < vNK(); i++ {
		if vBool(name + "." + vKeys[i] + ".def") {
			r.Resources[vKeys[i]] = &si.Quantity{Value: vRange(name+"."+vKeys[i], -vQMax, vQMax)}
		}
	}
	return r
}

// vBusyWorld: partition with one node and app-1 holding one bound allocation (alloc-1) and one outstanding ask (ask-2)
func vBusyWorld() (*vPW, *objects.Application) {
	w := vPartition(1)
	app := w.addApp("app-1")
	_, _, e1 := w.pc.UpdateAllocation(objects.NewAllocationFromSI(vSIAlloc("alloc-1", "app-1", "node-1", vResPos("a1"))))
	_, _, e2 := w.pc.UpdateAllocation(objects.NewAllocationFromSI(vSIAlloc("ask-2", "app-1", "", vResPos("a2"))))
	vAssert(e1 == nil && e2 == nil, "world: allocation and ask accepted")
	return w, app
}

func VerifC13_UpdateAllocation() {
	vUnwind(40)
	w, app := vBusyWorld()
	msg := &si.Allocation{
		AllocationKey:    vStr("key", "", "alloc-1", "ask-2", "alloc-new"),
		ApplicationID:    vStr("app", "", "app-1", "unknown"),
		NodeID:           vStr("node", "", "node-1", "unknown"),
		ResourcePerAlloc: vSIRes("res"),
		Placeholder:      vBool("placeholder"),
		TaskGroupName:    vStr("tg", "", "tg-1"),
		Priority:         int32(vRange("prio", -3, 3)),
	}
	if vBool("foreign") {
		msg.AllocationTags = map[string]string{"foreign": vStr("foreigntype", "static", "default", "")}
	}
	vSplit("key")
	vSplit("app")
	vSplit("node")
	vSplit("res.unset")
	vSplit("placeholder")
	pre := w.snap(app)
	alloc := objects.NewAllocationFromSI(msg)
	reqCreated, allocCreated, err := w.pc.UpdateAllocation(alloc)
	post := w.snap(app)
	if err != nil || alloc == nil {
		vAssert(!reqCreated && !allocCreated, "S a rejected allocation creates nothing")
		vAssert(pre == post, "S a rejected or ignored allocation leaves node, queue and application accounting exactly as it was")
	}
	if err == nil && alloc != nil && !alloc.IsForeign() {
		vAssert(post.nodeAlloc[0] == post.appAlloc && post.leaf == post.appAlloc && post.root == post.appAlloc && post.leafPend == post.appPend,
			"S after an accepted request node, queue chain and application still agree on allocated and pending totals")
		// what is accepted is strictly positive and addresses a registered application (and node, when bound)
		anyPos, anyNeg := false, false
		for i := 0; i < vNK(); i++ {
			if rv(alloc.GetAllocatedResource(), i) > 0 {
				anyPos = true
			}
			if rv(alloc.GetAllocatedResource(), i) < 0 {
				anyNeg = true
			}
		}
		vAssert(msg.ApplicationID == "app-1" && anyPos && !anyNeg, "S an accepted allocation names a registered application and has strictly positive resources")
		if allocCreated {
			vAssert(msg.NodeID == "node-1", "S an allocation is bound only to a registered node")
		}
	}
	vReach("end")
}

func VerifC13_RemoveAllocation() {
	vUnwind(40)
	w, app := vBusyWorld()
	rel := &si.AllocationRelease{
		ApplicationID:   vStr("app", "", "app-1", "unknown"),
		AllocationKey:   vStr("key", "", "alloc-1", "ask-2", "unknown"),
		TerminationType: si.TerminationType(vChoice("tt", 6)),
		Message:         "m",
	}
	vSplit("key")
	vSplit("app")
	pre := w.snap(app)
	released, confirmed := w.pc.removeAllocation(rel)
	post := w.snap(app)
	vAssert(w.countsOK(), "S after any release message the partition's allocation and placeholder counters equal the allocations its nodes hold")
	known := rel.ApplicationID == "app-1"
	if !known {
		vAssert(released == nil && confirmed == nil && pre == post, "S a release for an unknown application is ignored and changes nothing")
	}
	if known && rel.AllocationKey == "unknown" {
		vAssert(len(released) == 0 && confirmed == nil, "S a release for an unknown key releases nothing")
		vAssert(pre.nodeAlloc == post.nodeAlloc && pre.leaf == post.leaf && pre.appAlloc == post.appAlloc, "S a release for an unknown key leaves allocated accounting as it was")
	}
	vReach("end")
}

// a placeholder that is bound, no replacement in flight, and the shim says PLACEHOLDER_REPLACED
func VerifC13_ReplacedWithoutReplacement() {
	vUnwind(40)
	w := vPartition(1)
	w.addGangApp("app-1")
	_, _, err := w.pc.UpdateAllocation(objects.NewAllocationFromSI(vSIGang("ask-ph", "app-1", "node-1", "tg-1", true, vResPos("ph"))))
	vAssert(err == nil, "world: placeholder recovered")
	tt := si.TerminationType(vChoice("tt", 6))
	vKnown("C13-replaced-without-replacement-panics", tt == si.TerminationType_PLACEHOLDER_REPLACED)
	vAssert(true, "marker")
	w.pc.removeAllocation(&si.AllocationRelease{ApplicationID: "app-1", AllocationKey: "ask-ph", TerminationType: tt})
	vAssert(w.pc.GetNode("node-1").GetAllocation("ask-ph") == nil, "S a released placeholder is gone from its node whatever termination type the shim gives")
	vAssert(w.countsOK(), "S the partition's allocation and placeholder counters equal the allocations its nodes hold, whatever termination type the shim gives")
	vReach("end")
}

func VerifC13_UnknownIds() {
	vUnwind(40)
	w, app := vBusyWorld()
	pre := w.snap(app)
	id := vStr("id", "", "unknown", "app-1x")
	r1, r2 := w.pc.removeNode(id)
	r3 := w.pc.removeApplication(id)
	w.pc.removeForeignAllocation(id)
	vAssert(r1 == nil && r2 == nil && r3 == nil, "S removing unknown nodes / applications releases nothing")
	vAssert(pre == w.snap(app), "S requests for unknown ids change nothing")
	vReach("end")
}

func VerifC13_ConvertUGI() {
	w := vPartition(1)
	var ugi *si.UserGroupInformation
	if !vBool("nilugi") {
		ugi = &si.UserGroupInformation{User: vStr("user", "", "u1"), Groups: nil}
		if vBool("groups") {
			ugi.Groups = []string{"g1"}
		}
	}
	forced := vBool("forced")
	vKnown("C13-convertugi-nil-forced-panics", ugi == nil && forced)
	vAssert(true, "marker")
	ug, err := w.pc.convertUGI(ugi, forced)
	if err == nil {
		vAssert(ug.User != "", "S a converted user is never empty")
	}
	vReach("end")
}

// the SI entry point for allocations: every submitted allocation is either taken or answered with a rejection
func VerifC13_ProcessAllocations() {
	vUnwind(40)
	w, app := vBusyWorld()
	cc := &ClusterContext{partitions: map[string]*PartitionContext{"default": w.pc}, rmEventHandler: w.rec}
	msg := &si.Allocation{
		AllocationKey:    vStr("key", "", "alloc-1", "alloc-new"),
		ApplicationID:    vStr("app", "app-1", "unknown"),
		NodeID:           vStr("node", "", "node-1", "unknown"),
		PartitionName:    vStr("partition", "default", "unknown"),
		ResourcePerAlloc: vSIRes("res"),
		Placeholder:      vBool("placeholder"),
		TaskGroupName:    vStr("tg", "", "tg-1"),
	}
	vSplit("key")
	vSplit("app")
	vSplit("node")
	pre := w.snap(app)
	cc.processAllocations(&si.AllocationRequest{Allocations: []*si.Allocation{msg}, RmID: "rm-1"})
	post := w.snap(app)
	vAssert(w.rec.nRejected <= 1, "S at most one rejection per submitted allocation")
	if w.rec.nRejected == 1 {
		vAssert(pre == post, "S a rejected allocation leaves node, queue and application accounting exactly as it was")
	}
	if msg.PartitionName != "default" || msg.ApplicationID != "app-1" || (msg.Placeholder && msg.TaskGroupName == "") || msg.NodeID == "unknown" {
		vAssert(w.rec.nRejected == 1, "S an allocation for an unknown partition, application or node, or one that cannot be converted, is answered with a rejection")
	}
	vReach("end")
}

var _ = resources.Zero

// C01/F16 shape: a foreign allocation is reported again after its node was removed and registered again
func VerifC01_P_ForeignAllocationAfterNodeReAdd() {
	vPanics(false)
	vUnwind(40)
	w := vPartition(1)
	res := vResPos("f")
	mk := func() *objects.Allocation {
		return objects.NewAllocationFromSI(&si.Allocation{AllocationKey: "foreign-1", NodeID: "node-1", ResourcePerAlloc: res.ToProto(),
			AllocationTags: map[string]string{"foreign": "default"}})
	}
	_, _, e1 := w.pc.UpdateAllocation(mk())
	vAssert(e1 == nil, "world: foreign allocation accepted")
	n1 := w.pc.GetNode("node-1")
	for i := 0; i < vNK(); i++ {
		vAssert(rv(n1.GetOccupiedResource(), i) == rv(res, i), "N a foreign allocation is booked as occupied on its node")
	}
	capRes := n1.GetCapacity()
	w.pc.removeNode("node-1")
	n2 := objects.NewNode(nodeInfo("node-1", capRes))
	e2 := w.pc.AddNode(n2)
	_, _, e3 := w.pc.UpdateAllocation(mk())
	vAssert(e2 == nil && e3 == nil, "world: node registered again and the foreign allocation reported again")
	listed := n2.GetAllocation("foreign-1") != nil
	for i := 0; i < vNK(); i++ {
		vAssert(!listed || rv(n2.GetOccupiedResource(), i) == rv(res, i), "N a node that lists a foreign allocation has it booked as occupied (available = capacity - allocated - occupied)")
	}
	vReach("end")
}

// countsOK: the partition-wide counters agree with what the nodes hold (non-foreign allocations, placeholders)
func (w *vPW) countsOK() bool {
	total, ph := 0, 0
	for _, n := range w.nodes {
		for _, a := range n.GetYunikornAllocations() {
			total++
			if a.IsPlaceholder() {
				ph++
			}
		}
	}
	return w.pc.GetTotalAllocationCount() == total && w.pc.getPhAllocationCount() == ph
}
