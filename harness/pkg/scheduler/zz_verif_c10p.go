//go:build verif

package scheduler

import (
	"github.com/apache/yunikorn-core/pkg/scheduler/objects"
	"github.com/apache/yunikorn-scheduler-interface/lib/go/si"
)

// C10 at partition level: an application with a live real allocation is never Completed.
// Running gang application, placeholder swap in flight, the last running allocation leaves, then the shim confirms the swap.
func VerifC10_P_NeverCompletedWithLiveAllocation() {
	vPanics(false)
	vUnwind(40)
	w := vPartition(1)
	app := w.addGangApp("app-1")
	phRes, realRes := vResPos("ph"), vResPos("real")
	for i := 0; i < vNK(); i++ {
		vAssume(rv(realRes, i) <= rv(phRes, i))
	}
	_, _, e0 := w.pc.UpdateAllocation(objects.NewAllocationFromSI(vSIGang("real-0", "app-1", "node-1", "tg-1", false, vResPos("r0"))))
	ph := objects.NewAllocationFromSI(vSIGang("ask-ph", "app-1", "node-1", "tg-1", true, phRes))
	_, _, e1 := w.pc.UpdateAllocation(ph)
	real := objects.NewAllocationFromSI(vSIGang("ask-real", "app-1", "", "tg-1", false, realRes))
	_, _, e2 := w.pc.UpdateAllocation(real)
	vAssert(e0 == nil && e1 == nil && e2 == nil, "world: running allocation, placeholder and real ask accepted")
	vAssert(app.IsRunning(), "world: the application is Running")
	res := w.pc.tryPlaceholderAllocate()
	vAssume(res != nil)
	// the last running allocation is released by the shim while the swap is unconfirmed
	w.pc.removeAllocation(&si.AllocationRelease{ApplicationID: "app-1", AllocationKey: "real-0", TerminationType: si.TerminationType_STOPPED_BY_RM})
	s1 := app.CurrentState()
	vAssert(s1 == "Running" || s1 == "Completing", "L1 releasing an allocation keeps the application Running or makes it Completing")
	// the shim confirms the swap: the replacement becomes a live real allocation
	w.pc.removeAllocation(&si.AllocationRelease{ApplicationID: "app-1", AllocationKey: "ask-ph", TerminationType: si.TerminationType_PLACEHOLDER_REPLACED})
	live := false
	for _, a := range app.GetAllAllocations() {
		if !a.IsPlaceholder() {
			live = true
		}
	}
	vAssert(live && w.pc.GetNode("node-1").GetAllocation("ask-real") == real, "world: the replacement is a live real allocation after the confirmation")
	vAssert(!app.IsCompleted(), "L3 an application with a live real allocation is never Completed")
	vAssert(!app.IsCompleting(), "L3 an application whose replacement just became a live real allocation is not left Completing (the completing timer would complete it undisturbed)")
	vReach("end")
}
