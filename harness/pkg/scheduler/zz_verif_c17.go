//go:build verif

package scheduler

import (
	"strings"

	"github.com/apache/yunikorn-core/pkg/common/configs"
	"github.com/apache/yunikorn-core/pkg/common/security"
	"github.com/apache/yunikorn-core/pkg/scheduler/objects"
	"github.com/apache/yunikorn-scheduler-interface/lib/go/si"
)

// C17: placement puts applications only where rules and ACLs allow (real partition, real placement manager)

func vACLAllows(acl, user string) bool {
	switch acl {
	case "*":
		return true
	case "u1":
		return user == "u1"
	}
	return false
}

func VerifC17_AddApplicationACL() {
	vPanics(false)
	vUnwind(40)
	rootACL := vStr("root.submitacl", "", "*", "u1")
	defACL := vStr("default.submitacl", "", "*", "u1")
	openACL := vStr("open.submitacl", "", "*")
	create := vBool("rule.create")
	conf := configs.PartitionConfig{
		Name: "default",
		Queues: []configs.QueueConfig{{
			Name: "root", Parent: true, SubmitACL: rootACL,
			Queues: []configs.QueueConfig{
				{Name: "default", SubmitACL: defACL},
				{Name: "open", SubmitACL: openACL},
				{Name: "par", Parent: true, SubmitACL: ""},
			},
		}},
		PlacementRules: []configs.PlacementRule{{Name: "provided", Create: create}},
	}
	pc, err := newPartitionContext(conf, "rm-1", nil, false)
	vAssert(err == nil && pc != nil, "world: partition created")
	user := vStr("user", "u1", "u2")
	want := vStr("queue", "root.default", "root.open", "root.unknown", "root.par", "root.par.dyn", "", "root.@recovery@", "root.DEFAULT", "root.Par")
	wantL := strings.ToLower(want) // queue names are case-insensitive
	vSplit("queue")
	vSplit("user")
	vSplit("root.submitacl")
	forced := vBool("forced")
	tags := map[string]string{}
	if forced {
		tags["application.create.force"] = "true"
	}
	app := objects.NewApplication(&si.AddApplicationRequest{ApplicationID: "app-1", QueueName: want, PartitionName: "default", Tags: tags},
		security.UserGroup{User: user, Groups: []string{"g1"}}, &vRecorder{}, "rm-1")
	vAssert(app.IsCreateForced() == forced, "world: the create-forced tag makes a forced application")
	aerr := pc.AddApplication(app)
	if forced {
		vAssert(aerr == nil, "A a force-created application is always accepted (recovery queue as the last resort)")
	}
	if aerr == nil && app.GetQueuePath() == "root.@recovery@" {
		q := pc.GetQueue("root.@recovery@")
		vAssert(forced, "A the recovery queue is not used for an application that is not force-created")
		vAssert(q != nil && q.IsLeafQueue() && q.GetApplication("app-1") == app && pc.getApplication("app-1") == app, "A a forced application in the recovery queue is registered there")
	} else if aerr == nil {
		qp := app.GetQueuePath()
		q := pc.GetQueue(qp)
		vAssert(q != nil && q.IsLeafQueue(), "A an accepted application is in an existing leaf queue")
		vAssert(pc.getApplication("app-1") == app && q.GetApplication("app-1") == app, "A an accepted application is registered in the partition and in its queue")
		// the user may submit through the ACL of the queue or of an ancestor
		allowed := vACLAllows(rootACL, user)
		switch qp {
		case "root.default":
			allowed = allowed || vACLAllows(defACL, user)
		case "root.open":
			allowed = allowed || vACLAllows(openACL, user)
		}
		vAssert(allowed, "A an accepted application's user has submit access on the queue or an ancestor")
		if qp == "root.par.dyn" || qp == "root.unknown" {
			vAssert(create && wantL == qp, "A a queue that did not exist is created only by a rule with create enabled, for the name the rule produced")
			vAssert(!q.IsManaged(), "A a rule-created queue is a dynamic queue")
		} else {
			vAssert(qp == "root.default" || qp == "root.open", "A an application is only placed in a configured leaf or a rule-created one")
		}
	} else {
		vAssert(pc.getApplication("app-1") == nil, "A a rejected application leaves no trace in the partition")
		vAssert(pc.GetQueue("root.default").GetApplication("app-1") == nil && pc.GetQueue("root.open").GetApplication("app-1") == nil, "A a rejected application is in no queue")
	}
	// whatever happened, the configured queues are what the configuration says they are
	par := pc.GetQueue("root.par")
	vAssert(par != nil && !par.IsLeafQueue() && par.IsManaged(), "A a configured parent queue is never replaced by a rule-created leaf, however the requested name is spelled")
	def := pc.GetQueue("root.default")
	vAssert(def != nil && def.IsLeafQueue() && def.IsManaged(), "A a configured leaf queue is never replaced by a rule-created one")
	if aerr == nil && wantL == "root.default" && app.GetQueuePath() != "root.@recovery@" { // a forced application without access ends in the recovery queue
		vAssert(app.GetQueuePath() == "root.default" && def.GetApplication("app-1") == app, "A a requested name that only differs in case from an existing queue resolves to that queue")
	}
	vReach("end")
}

// C11 (tag based max applications): an application tag sets the limit on a rule-created queue
func VerifC11_MaxAppsTagOnDynamicQueue() {
	vPanics(false)
	vUnwind(40)
	conf := configs.PartitionConfig{
		Name: "default",
		Queues: []configs.QueueConfig{{
			Name: "root", Parent: true, SubmitACL: "*",
			Queues: []configs.QueueConfig{{Name: "par", Parent: true}},
		}},
		PlacementRules: []configs.PlacementRule{{Name: "provided", Create: true}},
	}
	pc, err := newPartitionContext(conf, "rm-1", nil, false)
	vAssert(err == nil && pc != nil, "world: partition created")
	n := vStr("maxapps", "1", "2", "3")
	app := objects.NewApplication(&si.AddApplicationRequest{ApplicationID: "app-1", QueueName: "root.par.dyn", PartitionName: "default",
		Tags: map[string]string{"namespace.resourcemaxapps": n}},
		security.UserGroup{User: "u1", Groups: []string{"g1"}}, &vRecorder{}, "rm-1")
	aerr := pc.AddApplication(app)
	vAssert(aerr == nil, "world: application accepted into the rule-created queue")
	q := pc.GetQueue("root.par.dyn")
	vAssert(q != nil, "world: dynamic queue exists")
	want := uint64(1)
	if n == "2" {
		want = 2
	}
	if n == "3" {
		want = 3
	}
	vAssert(q.GetMaxApps() == want, "M the max-applications tag of the application is in force on the rule-created queue")
	vReach("end")
}
