//go:build verif

package scheduler

import (
	"github.com/apache/yunikorn-core/pkg/common/resources"
	"github.com/apache/yunikorn-core/pkg/common/configs"
	"github.com/apache/yunikorn-core/pkg/scheduler/objects"
)

// C16: an accepted reload keeps running state, applies the new limits, drains dropped queues, keeps configured ones active

var vCQty = []string{"0", "10", "20"}
var vCQtyVal = []int64{0, 10, 20}
var vCTypes = []string{"memory", "pods"}

func vMaxConf(name string) (map[string]string, [2]bool, [2]int64) {
	m := map[string]string{}
	var def [2]bool
	var val [2]int64
	for i := 0; i < 2; i++ {
		if vBool(name + "." + vCTypes[i] + ".def") {
			k := vChoice(name+"."+vCTypes[i], len(vCQty))
			m[vCTypes[i]] = vCQty[k]
			def[i], val[i] = true, vCQtyVal[k]
		}
	}
	return m, def, val
}

func VerifC16_ReloadKeepsStateAppliesLimits() {
	vPanics(false)
	vUnwind(40)
	m1, _, _ := vMaxConf("c1.prod.max")
	mk := func(max map[string]string, withOld bool) configs.PartitionConfig {
		qs := []configs.QueueConfig{{Name: "Prod", Resources: configs.Resources{Max: max}}, {Name: "batch"}}
		if withOld {
			qs = append(qs, configs.QueueConfig{Name: "old"})
		}
		return configs.PartitionConfig{Name: "default", Queues: []configs.QueueConfig{{Name: "root", Parent: true, SubmitACL: "*", Queues: qs}}}
	}
	pc, err := newPartitionContext(mk(m1, true), "rm-1", nil, false)
	vAssert(err == nil && pc != nil, "world: partition created")
	pc.nodes = &vNodeColl{policy: pc.nodes.GetNodeSortingPolicy()}
	w := &vPW{pc: pc, rec: &vRecorder{}}
	// concrete, large node; allocation and ask of one resource type with symbolic size: the lemma is about what a
	// reload keeps and applies, not about how full the node is
	bigCap := resources.NewResource()
	for i := 0; i < vNK(); i++ {
		bigCap.Resources[vKeys[i]] = resources.Quantity(1 << 42)
	}
	n := objects.NewNode(nodeInfo("node-1", bigCap))
	_ = pc.AddNode(n)
	w.nodes = append(w.nodes, n)
	// a running application with one bound allocation and one ask in root.prod (RM-forced: recovery ignores quotas)
	app := w.addAppIn("app-1", "root.prod")
	one := func(name string) *resources.Resource {
		return resources.NewResourceFromMap(map[string]resources.Quantity{vKeys[0]: resources.Quantity(vRange(name, 1, 1000))})
	}
	_, _, e1 := pc.UpdateAllocation(objects.NewAllocationFromSI(vSIAlloc("alloc-1", "app-1", "node-1", one("a1.k0"))))
	_, _, e2 := pc.UpdateAllocation(objects.NewAllocationFromSI(vSIAlloc("ask-2", "app-1", "", one("a2.k0"))))
	vAssert(e1 == nil && e2 == nil, "world: allocation and ask accepted")
	prod := pc.GetQueue("root.prod")
	preAlloc, prePend := vecOf(prod.GetAllocatedResource()), vecOf(prod.GetPendingResource())
	preRoot := vecOf(pc.root.GetAllocatedResource())
	// the reload: new maximum on Prod (sparse, explicit zeros possible), queue "old" dropped
	m2, def2, val2 := vMaxConf("c2.prod.max")
	rerr := pc.updatePartitionDetails(mk(m2, false))
	vAssert(rerr == nil, "A a valid configuration is applied")
	vAssert(vecOf(prod.GetAllocatedResource()) == preAlloc && vecOf(prod.GetPendingResource()) == prePend && vecOf(pc.root.GetAllocatedResource()) == preRoot,
		"A1 a reload leaves allocated and pending totals exactly as they were")
	vAssert(pc.getApplication("app-1") == app && prod.GetApplication("app-1") == app && n.GetAllocation("alloc-1") != nil, "A1 a reload keeps applications and allocations")
	// A2: the limit in force is exactly the new configuration's
	anyPos := false
	for i := 0; i < 2; i++ {
		if def2[i] && val2[i] > 0 {
			anyPos = true
		}
	}
	max := prod.GetMaxQueueSet()
	if !anyPos {
		vAssert(max == nil, "A2 a maximum without any positive quantity means no maximum")
	} else {
		vAssert(max != nil, "A2 the new maximum is in force")
		for i := 0; i < 2; i++ {
			q, has := max.Resources[vCTypes[i]]
			vAssert(has == def2[i], "A2 the maximum in force defines exactly the types of the latest configuration (an explicit zero is a limit)")
			if has {
				vAssert(int64(q) == val2[i], "A2 the maximum in force has the values of the latest configuration")
			}
		}
	}
	vAssert(prod.IsRunning() && pc.GetQueue("root.batch").IsRunning(), "A3 queues the new configuration defines stay active")
	vAssert(pc.GetQueue("root.old").IsDraining(), "A3 a configured queue missing from the new configuration is draining")
	vReach("end")
}
