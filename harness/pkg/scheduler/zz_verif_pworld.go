//go:build verif

package scheduler

import (
	"github.com/apache/yunikorn-core/pkg/common/configs"
	"github.com/apache/yunikorn-core/pkg/common/resources"
	"github.com/apache/yunikorn-core/pkg/common/security"
	"github.com/apache/yunikorn-core/pkg/rmproxy/rmevent"
	"github.com/apache/yunikorn-core/pkg/scheduler/objects"
	"github.com/apache/yunikorn-scheduler-interface/lib/go/si"
)

// ---- partition micro-world: built through the real constructors (concrete structure, symbolic quantities) ----

var vKeys = []string{"k0", "k1", "k2"}

func vNK() int {
	if vTier() > 0 {
		return 3
	}
	return 2
}

const vQMax = int64(1) << 40

func vResQ(name string) *resources.Resource {
	r := resources.NewResource()
	for i := 0; i < vNK(); i++ {
		if vBool(name + "." + vKeys[i] + ".def") {
			r.Resources[vKeys[i]] = resources.Quantity(vRange(name+"."+vKeys[i], 0, vQMax))
		}
	}
	return r
}

// vResPos: sparse vector with at least one strictly positive type
func vResPos(name string) *resources.Resource {
	r := vResQ(name)
	pos := false
	for i := 0; i < vNK(); i++ {
		if rv(r, i) > 0 {
			pos = true
		}
	}
	vAssume(pos)
	return r
}

func rv(r *resources.Resource, i int) int64 {
	if r == nil {
		return 0
	}
	return int64(r.Resources[vKeys[i]])
}

type vVec [3]int64

func vecOf(r *resources.Resource) vVec {
	var v vVec
	for i := 0; i < 3; i++ {
		v[i] = rv(r, i)
	}
	return v
}

type vRecorder struct {
	released []*si.AllocationRelease
	appUpd   []*si.UpdatedApplication
	other    int
}

func (r *vRecorder) HandleEvent(ev interface{}) {
	switch e := ev.(type) {
	case *rmevent.RMReleaseAllocationEvent:
		r.released = append(r.released, e.ReleasedAllocations...)
		if e.Channel != nil {
			c := e.Channel
			go func() { c <- &rmevent.Result{Succeeded: true} }()
		}
	case *rmevent.RMApplicationUpdateEvent:
		r.appUpd = append(r.appUpd, e.UpdatedApplications...)
	default:
		r.other++
	}
}

type vPW struct {
	pc    *PartitionContext
	rec   *vRecorder
	nodes []*objects.Node
	app   *objects.Application
}

// vPartition: partition "default" with queues root -> root.default (leaf), nNodes nodes of symbolic capacity,
// optional maxima on root.default (symbolic, sparse)
func vPartition(nNodes int) *vPW {
	w := &vPW{rec: &vRecorder{}}
	conf := configs.PartitionConfig{
		Name: "default",
		Queues: []configs.QueueConfig{{
			Name: "root", Parent: true, SubmitACL: "*",
			Queues: []configs.QueueConfig{{Name: "default", Parent: false}},
		}},
	}
	pc, err := newPartitionContext(conf, "rm-1", nil, false)
	if err != nil || pc == nil {
		vAssert(false, "world: partition could not be created")
		return w
	}
	w.pc = pc
	pc.nodes = &vNodeColl{policy: pc.nodes.GetNodeSortingPolicy()}
	ids := []string{"node-1", "node-2"}
	for j := 0; j < nNodes; j++ {
		n := objects.NewNode(&si.NodeInfo{NodeID: ids[j], SchedulableResource: vResQ(ids[j] + ".cap").ToProto()})
		if err := pc.AddNode(n); err != nil {
			vAssert(false, "world: node could not be added")
		}
		w.nodes = append(w.nodes, n)
	}
	return w
}

func (w *vPW) addApp(id string) *objects.Application {
	app := objects.NewApplication(&si.AddApplicationRequest{ApplicationID: id, QueueName: "root.default", PartitionName: "default"},
		security.UserGroup{User: "u1", Groups: []string{"g1"}}, w.rec, "rm-1")
	if err := w.pc.AddApplication(app); err != nil {
		vAssert(false, "world: application could not be added")
	}
	return app
}

func vSIAlloc(key, app, node string, res *resources.Resource) *si.Allocation {
	return &si.Allocation{AllocationKey: key, ApplicationID: app, NodeID: node, ResourcePerAlloc: res.ToProto()}
}

type vPSnap struct {
	root, leaf, leafPend vVec
	nodeAlloc, nodeAvail [2]vVec
	appAlloc, appPend    vVec
}

func (w *vPW) snap(app *objects.Application) vPSnap {
	var s vPSnap
	s.root = vecOf(w.pc.root.GetAllocatedResource())
	leaf := w.pc.GetQueue("root.default")
	s.leaf = vecOf(leaf.GetAllocatedResource())
	s.leafPend = vecOf(leaf.GetPendingResource())
	for j, n := range w.nodes {
		s.nodeAlloc[j] = vecOf(n.GetAllocatedResource())
		s.nodeAvail[j] = vecOf(n.GetAvailableResource())
	}
	if app != nil {
		s.appAlloc = vecOf(app.GetAllocatedResource())
		s.appPend = vecOf(app.GetPendingResource())
	}
	return s
}

// ---- node collection provided by the harness: same interface, registration order instead of the
// utilisation-sorted btree (C19 owns the order; the ledger and protocol lemmas hold for any order) ----

type vNodeColl struct {
	nodes  []*objects.Node
	policy objects.NodeSortingPolicy
}

func (c *vNodeColl) AddNode(n *objects.Node) error {
	for _, o := range c.nodes {
		if o.NodeID == n.NodeID {
			return errDup
		}
	}
	c.nodes = append(c.nodes, n)
	return nil
}
func (c *vNodeColl) RemoveNode(id string) *objects.Node {
	for i, o := range c.nodes {
		if o.NodeID == id {
			c.nodes = append(c.nodes[:i:i], c.nodes[i+1:]...)
			return o
		}
	}
	return nil
}
func (c *vNodeColl) GetNode(id string) *objects.Node {
	for _, o := range c.nodes {
		if o.NodeID == id {
			return o
		}
	}
	return nil
}
func (c *vNodeColl) GetNodeCount() int          { return len(c.nodes) }
func (c *vNodeColl) GetNodes() []*objects.Node  { return append([]*objects.Node{}, c.nodes...) }
func (c *vNodeColl) GetNodeIterator() objects.NodeIterator {
	return &vIter{c: c, unreserved: true}
}
func (c *vNodeColl) GetFullNodeIterator() objects.NodeIterator  { return &vIter{c: c} }
func (c *vNodeColl) SetNodeSortingPolicy(p objects.NodeSortingPolicy) { c.policy = p }
func (c *vNodeColl) GetNodeSortingPolicy() objects.NodeSortingPolicy { return c.policy }

type vIter struct {
	c          *vNodeColl
	unreserved bool
}

func (it *vIter) ForEachNode(f func(*objects.Node) bool) {
	for _, n := range it.c.nodes {
		if it.unreserved && n.IsReserved() {
			continue
		}
		if !f(n) {
			return
		}
	}
}

type vErr struct{}

func (vErr) Error() string { return "duplicate node" }

var errDup error = vErr{}
