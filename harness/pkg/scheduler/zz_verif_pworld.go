//go:build verif

package scheduler

import (
	"github.com/apache/yunikorn-core/pkg/common/configs"
	"github.com/apache/yunikorn-core/pkg/common/resources"
	"github.com/apache/yunikorn-core/pkg/common/security"
	"github.com/apache/yunikorn-core/pkg/plugins"
	"github.com/apache/yunikorn-core/pkg/rmproxy/rmevent"
	"github.com/apache/yunikorn-core/pkg/scheduler/objects"
	"github.com/apache/yunikorn-scheduler-interface/lib/go/si"
)

// ---- partition micro-world: built through the real constructors (concrete structure, symbolic quantities) ----

var vKeys = []string{"k0", "k1", "k2"}

func vNK() int {
	if vTier() > 0 {
		return 3
	}
	return 2
}

const vQMax = int64(1) << 40

func vResQ(name string) *resources.Resource {
	r := resources.NewResource()
	for i := 0; i < vNK(); i++ {
		if vBool(name + "." + vKeys[i] + ".def") {
			r.Resources[vKeys[i]] = resources.Quantity(vRange(name+"."+vKeys[i], 0, vQMax))
		}
	}
	return r
}

// vResPos: sparse vector with at least one strictly positive type
func vResPos(name string) *resources.Resource {
	r := vResQ(name)
	pos := false
	for i := 0; i < vNK(); i++ {
		if rv(r, i) > 0 {
			pos = true
		}
	}
	vAssume(pos)
	return r
}

func rv(r *resources.Resource, i int) int64 {
	if r == nil {
		return 0
	}
	return int64(r.Resources[vKeys[i]])
}

type vVec [3]int64

func vecOf(r *resources.Resource) vVec {
	var v vVec
	for i := 0; i < 3; i++ {
		v[i] = rv(r, i)
	}
	return v
}

// vRecorder stands for the shim side of the event handler. It only counts (per allocation key of interest):
// appending to slices under many symbolic guards is what makes merged symbolic execution expensive.
type vRecorder struct {
	nRelease   int            // release announcements
	relByKey   map[string]int // per allocation key
	nAppUpd    int
	lastState  string
	nNewAlloc  int
	nRejected  int
	other      int
}

func (r *vRecorder) HandleEvent(ev interface{}) {
	switch e := ev.(type) {
	case *rmevent.RMReleaseAllocationEvent:
		for _, rel := range e.ReleasedAllocations {
			r.nRelease++
			if r.relByKey == nil {
				r.relByKey = map[string]int{}
			}
			r.relByKey[rel.AllocationKey]++
		}
		if e.Channel != nil {
			c := e.Channel
			go func() { c <- &rmevent.Result{Succeeded: true} }()
		}
	case *rmevent.RMApplicationUpdateEvent:
		for _, u := range e.UpdatedApplications {
			r.nAppUpd++
			r.lastState = u.State
		}
	case *rmevent.RMNewAllocationsEvent:
		r.nNewAlloc += len(e.Allocations)
		if e.Channel != nil {
			c := e.Channel
			go func() { c <- &rmevent.Result{Succeeded: true} }()
		}
	case *rmevent.RMRejectedAllocationEvent:
		r.nRejected += len(e.RejectedAllocations)
	default:
		r.other++
	}
}

type vPW struct {
	pc    *PartitionContext
	rec   *vRecorder
	nodes []*objects.Node
	app   *objects.Application
}

// vPartition: partition "default" with queues root -> root.default (leaf), nNodes nodes of symbolic capacity,
// optional maxima on root.default (symbolic, sparse)
func vPartition(nNodes int) *vPW {
	w := &vPW{rec: &vRecorder{}}
	conf := configs.PartitionConfig{
		Name: "default",
		Queues: []configs.QueueConfig{{
			Name: "root", Parent: true, SubmitACL: "*",
			Queues: []configs.QueueConfig{{Name: "default", Parent: false}},
		}},
	}
	pc, err := newPartitionContext(conf, "rm-1", nil, false)
	vAssert(err == nil && pc != nil, "world: partition created")
	w.pc = pc
	pc.nodes = &vNodeColl{policy: pc.nodes.GetNodeSortingPolicy()}
	ids := []string{"node-1", "node-2"}
	for j := 0; j < nNodes; j++ {
		n := objects.NewNode(&si.NodeInfo{NodeID: ids[j], SchedulableResource: vResQ(ids[j] + ".cap").ToProto()})
		nerr := pc.AddNode(n)
		vAssert(nerr == nil, "world: node added")
		w.nodes = append(w.nodes, n)
	}
	return w
}

func (w *vPW) addApp(id string) *objects.Application {
	app := objects.NewApplication(&si.AddApplicationRequest{ApplicationID: id, QueueName: "root.default", PartitionName: "default"},
		security.UserGroup{User: "u1", Groups: []string{"g1"}}, w.rec, "rm-1")
	err := w.pc.AddApplication(app)
	vAssert(err == nil, "world: application added")
	return app
}

func nodeInfo(id string, cap *resources.Resource) *si.NodeInfo {
	return &si.NodeInfo{NodeID: id, SchedulableResource: cap.ToProto()}
}

func (w *vPW) addAppIn(id, queue string) *objects.Application {
	app := objects.NewApplication(&si.AddApplicationRequest{ApplicationID: id, QueueName: queue, PartitionName: "default"},
		security.UserGroup{User: "u1", Groups: []string{"g1"}}, w.rec, "rm-1")
	err := w.pc.AddApplication(app)
	vAssert(err == nil, "world: application added")
	return app
}

func vSIAlloc(key, app, node string, res *resources.Resource) *si.Allocation {
	return &si.Allocation{AllocationKey: key, ApplicationID: app, NodeID: node, ResourcePerAlloc: res.ToProto()}
}

type vPSnap struct {
	root, leaf, leafPend vVec
	nodeAlloc, nodeAvail [2]vVec
	appAlloc, appPend    vVec
}

func (w *vPW) snap(app *objects.Application) vPSnap {
	var s vPSnap
	s.root = vecOf(w.pc.root.GetAllocatedResource())
	leaf := w.pc.GetQueue("root.default")
	s.leaf = vecOf(leaf.GetAllocatedResource())
	s.leafPend = vecOf(leaf.GetPendingResource())
	for j, n := range w.nodes {
		s.nodeAlloc[j] = vecOf(n.GetAllocatedResource())
		s.nodeAvail[j] = vecOf(n.GetAvailableResource())
	}
	if app != nil {
		s.appAlloc = vecOf(resources.Add(app.GetAllocatedResource(), app.GetPlaceholderResource()))
		s.appPend = vecOf(app.GetPendingResource())
	}
	return s
}

// ---- node collection provided by the harness: same interface, registration order instead of the
// utilisation-sorted btree (C19 owns the order; the ledger and protocol lemmas hold for any order) ----

type vNodeColl struct {
	nodes  []*objects.Node
	policy objects.NodeSortingPolicy
}

func (c *vNodeColl) AddNode(n *objects.Node) error {
	for _, o := range c.nodes {
		if o.NodeID == n.NodeID {
			return errDup
		}
	}
	c.nodes = append(c.nodes, n)
	return nil
}
func (c *vNodeColl) RemoveNode(id string) *objects.Node {
	var found *objects.Node
	var rest []*objects.Node
	for _, o := range c.nodes {
		if o.NodeID == id && found == nil {
			found = o
		} else {
			rest = append(rest, o)
		}
	}
	if found != nil {
		c.nodes = rest
	}
	return found
}
func (c *vNodeColl) GetNode(id string) *objects.Node {
	for _, o := range c.nodes {
		if o.NodeID == id {
			return o
		}
	}
	return nil
}
func (c *vNodeColl) GetNodeCount() int          { return len(c.nodes) }
func (c *vNodeColl) GetNodes() []*objects.Node  { return append([]*objects.Node{}, c.nodes...) }
func (c *vNodeColl) GetNodeIterator() objects.NodeIterator {
	return &vIter{c: c, unreserved: true}
}
func (c *vNodeColl) GetFullNodeIterator() objects.NodeIterator  { return &vIter{c: c} }
func (c *vNodeColl) SetNodeSortingPolicy(p objects.NodeSortingPolicy) { c.policy = p }
func (c *vNodeColl) GetNodeSortingPolicy() objects.NodeSortingPolicy { return c.policy }

type vIter struct {
	c          *vNodeColl
	unreserved bool
}

func (it *vIter) ForEachNode(f func(*objects.Node) bool) {
	for _, n := range it.c.nodes {
		if it.unreserved && n.IsReserved() {
			continue
		}
		if !f(n) {
			return
		}
	}
}

type vErr struct{}

func (vErr) Error() string { return "duplicate node" }

var errDup error = vErr{}

// ---- shim predicate plugin with symbolic / scripted verdicts ----

type vPlugin struct {
	deny map[string]bool // allocationKey|nodeID -> refuse
}

func (p *vPlugin) UpdateAllocation(*si.AllocationResponse) error   { return nil }
func (p *vPlugin) UpdateApplication(*si.ApplicationResponse) error { return nil }
func (p *vPlugin) UpdateNode(*si.NodeResponse) error               { return nil }
func (p *vPlugin) Predicates(args *si.PredicatesArgs) error {
	if p.deny[args.AllocationKey+"|"+args.NodeID] {
		return vErr{}
	}
	return nil
}
func (p *vPlugin) PreemptionPredicates(*si.PreemptionPredicatesArgs) *si.PreemptionPredicatesResponse {
	return nil
}
func (p *vPlugin) SendEvent([]*si.EventRecord)                                              {}
func (p *vPlugin) UpdateContainerSchedulingState(*si.UpdateContainerSchedulingStateRequest) {}
func (p *vPlugin) GetStateDump() (string, error)                                            { return "", nil }

// gang application: placeholder ask-ph (task group tg-1) and real ask ask-real
func (w *vPW) addGangApp(id string) *objects.Application {
	app := objects.NewApplication(&si.AddApplicationRequest{ApplicationID: id, QueueName: "root.default", PartitionName: "default",
		GangSchedulingStyle: "Soft", ExecutionTimeoutMilliSeconds: 60000},
		security.UserGroup{User: "u1", Groups: []string{"g1"}}, w.rec, "rm-1")
	err := w.pc.AddApplication(app)
	vAssert(err == nil, "world: application added")
	return app
}

func vSIGang(key, app, node, tg string, ph bool, res *resources.Resource) *si.Allocation {
	return &si.Allocation{AllocationKey: key, ApplicationID: app, NodeID: node, ResourcePerAlloc: res.ToProto(), TaskGroupName: tg, Placeholder: ph}
}

func vRegisterDeny(pairs ...string) {
	p := &vPlugin{deny: map[string]bool{}}
	for _, k := range pairs {
		p.deny[k] = true
	}
	plugins.RegisterSchedulerPlugin(p)
}
