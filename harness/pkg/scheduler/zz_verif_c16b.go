//go:build verif

package scheduler

import (
	"github.com/apache/yunikorn-core/pkg/common/configs"
	"github.com/apache/yunikorn-core/pkg/common/security"
	"github.com/apache/yunikorn-core/pkg/scheduler/objects"
	"github.com/apache/yunikorn-scheduler-interface/lib/go/si"
)

// A3: a configured queue dropped by a reload is draining: it takes no new applications, but the applications it
// holds keep running - their outstanding asks are still scheduled
func VerifC16_DrainingQueueKeepsScheduling() {
	vPanics(false)
	vUnwind(40)
	mk := func(withGone bool) configs.PartitionConfig {
		qs := []configs.QueueConfig{{Name: "keep"}}
		if withGone {
			qs = append(qs, configs.QueueConfig{Name: "gone"})
		}
		return configs.PartitionConfig{Name: "default", Queues: []configs.QueueConfig{{Name: "root", Parent: true, SubmitACL: "*", Queues: qs}}}
	}
	pc, err := newPartitionContext(mk(true), "rm-1", nil, false)
	vAssert(err == nil && pc != nil, "world: partition created")
	pc.nodes = &vNodeColl{policy: pc.nodes.GetNodeSortingPolicy()}
	w := &vPW{pc: pc, rec: &vRecorder{}}
	res := vResPos("ask")
	n := objects.NewNode(nodeInfo("node-1", res)) // the node has exactly the room the ask needs
	_ = pc.AddNode(n)
	w.nodes = append(w.nodes, n)
	app := w.addAppIn("app-1", "root.gone")
	ask := objects.NewAllocationFromSI(vSIAlloc("ask-1", "app-1", "", res))
	_, _, e1 := pc.UpdateAllocation(ask)
	vAssert(e1 == nil, "world: ask accepted")
	rerr := pc.updatePartitionDetails(mk(false))
	vAssert(rerr == nil, "A a valid configuration is applied")
	gone := pc.GetQueue("root.gone")
	vAssert(gone != nil && gone.IsDraining() && gone.GetApplication("app-1") == app, "A3 a configured queue missing from the new configuration is draining and keeps its applications")
	late := objects.NewApplication(&si.AddApplicationRequest{ApplicationID: "app-2", QueueName: "root.gone", PartitionName: "default"},
		security.UserGroup{User: "u1", Groups: []string{"g1"}}, w.rec, "rm-1")
	vAssert(pc.AddApplication(late) != nil && gone.GetApplication("app-2") == nil, "A3 a draining queue takes no new applications")
	result := pc.tryAllocate()
	vAssert(result != nil && result.Request == ask && ask.IsAllocated() && ask.GetNodeID() == "node-1" && n.GetAllocation("ask-1") == ask,
		"A3 the outstanding ask of an application in a draining queue is still scheduled")
	vReach("end")
}
