//go:build verif

package scheduler

import (
	"github.com/apache/yunikorn-core/pkg/common/resources"
	"github.com/apache/yunikorn-core/pkg/scheduler/objects"
)

// R6: the partition's reserve/unReserve pair keeps the four views of the reservations in step - application, nodes,
// the queue's per-application count and the partition counter - for every sequence of three operations on one ask
// and two nodes, including a reservation moved to another node (the preemption path hands back a Reserved result
// for an ask that already holds a reservation elsewhere).
func VerifC09_PartitionReserveViewsAgree() {
	vPanics(false)
	vUnwind(40)
	w := vPartition(0)
	big := resources.NewResource()
	for i := 0; i < vNK(); i++ {
		big.Resources[vKeys[i]] = resources.Quantity(1 << 42)
	}
	for _, id := range []string{"node-1", "node-2"} {
		n := objects.NewNode(nodeInfo(id, big))
		vAssert(w.pc.AddNode(n) == nil, "world: node added")
		w.nodes = append(w.nodes, n)
	}
	app := w.addApp("app-1")
	res := resources.NewResourceFromMap(map[string]resources.Quantity{vKeys[0]: resources.Quantity(vRange("ask.k0", 1, 1000))})
	ask := objects.NewAllocationFromSI(vSIAlloc("ask-1", "app-1", "", res))
	_, _, e1 := w.pc.UpdateAllocation(ask)
	vAssert(e1 == nil && app.GetAllocationAsk("ask-1") == ask, "world: ask accepted")
	leaf := w.pc.GetQueue("root.default")
	ops := []string{"op0", "op1", "op2"}
	for _, o := range ops {
		switch vChoice(o, 4) {
		case 0:
			w.pc.reserve(app, w.nodes[0], ask)
		case 1:
			w.pc.reserve(app, w.nodes[1], ask)
		case 2:
			w.pc.unReserve(app, w.nodes[0], ask)
		default:
			w.pc.unReserve(app, w.nodes[1], ask)
		}
		n := 0
		for _, nd := range w.nodes {
			if nd.IsReserved() {
				n++
			}
		}
		held := 0
		if app.NodeReservedForAsk("ask-1") != "" {
			held = 1
		}
		vAssert(n == held && len(app.GetReservations()) == held, "R6 application and nodes describe the same reservations, at most one per ask")
		vAssert(leaf.GetReservedApps()["app-1"] == held, "R6 the queue counts exactly the reservations the application holds")
		vAssert(w.pc.getReservationCount() == held, "R6 the partition counter equals the number of reservations")
	}
	vReach("end")
}
