//go:build verif

package scheduler

import (
	"github.com/apache/yunikorn-scheduler-interface/lib/go/si"
)

// R5 / S: one allocation request with several entries (a shim replaying its pods after a restart): an entry that is
// rejected is answered with a rejection and does not stop the entries after it from being processed
func VerifC12_ReplayBatchContinuesAfterRejectedEntry() {
	vPanics(false)
	vUnwind(40)
	w := vPartition(1)
	app := w.addApp("app-1")
	cc := &ClusterContext{partitions: map[string]*PartitionContext{"default": w.pc}, rmEventHandler: w.rec}
	badKind := vChoice("bad.kind", 3)
	vSplit("bad.kind")
	bad := &si.Allocation{AllocationKey: "bad-1", ApplicationID: "app-1", NodeID: "node-1", PartitionName: "default", ResourcePerAlloc: vResPos("bad").ToProto()}
	switch badKind {
	case 0:
		bad.NodeID = "unknown" // bound to a node the core does not know (yet)
	case 1:
		bad.ApplicationID = "unknown"
	case 2:
		bad.PartitionName = "unknown"
	}
	res := vResPos("good")
	good := &si.Allocation{AllocationKey: "good-1", ApplicationID: "app-1", NodeID: "node-1", PartitionName: "default", ResourcePerAlloc: res.ToProto()}
	first := vBool("bad.first")
	vSplit("bad.first")
	list := []*si.Allocation{good, bad}
	if first {
		list = []*si.Allocation{bad, good}
	}
	cc.processAllocations(&si.AllocationRequest{Allocations: list, RmID: "rm-1"})
	vAssert(w.rec.nRejected == 1, "S the entry that cannot be accepted is answered with exactly one rejection")
	a := app.GetAllocationAsk("good-1")
	vAssert(a != nil && a.IsAllocated() && w.nodes[0].GetAllocation("good-1") == a, "R5 the valid entry of the same request is accepted and booked, whatever its position in the request")
	s := w.snap(app)
	for i := 0; i < vNK(); i++ {
		vAssert(s.nodeAlloc[0][i] == rv(res, i) && s.leaf[i] == rv(res, i) && s.root[i] == rv(res, i) && s.appAlloc[i] == rv(res, i), "R1 the valid entry is booked on node, queue chain and application")
	}
	vReach("end")
}
