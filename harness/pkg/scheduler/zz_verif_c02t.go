//go:build verif

package scheduler

import (
	"github.com/apache/yunikorn-core/pkg/common/configs"
	"github.com/apache/yunikorn-core/pkg/common/resources"
	"github.com/apache/yunikorn-core/pkg/common/security"
	"github.com/apache/yunikorn-core/pkg/scheduler/objects"
	"github.com/apache/yunikorn-scheduler-interface/lib/go/si"
)

func vQty(s string) int64 {
	switch s {
	case "5":
		return 5
	case "10":
		return 10
	case "20":
		return 20
	case "40":
		return 40
	}
	return -1
}

// Q7: a queue created by a placement rule under a parent with a child template gets the template's maximum (and the
// quota the partition sets from an application tag afterwards replaces it), and the next scheduling increment through
// it is refused as soon as the rule-created queue or its parent would exceed its maximum.
func VerifC02_TemplateQuotaOnDynamicQueue() {
	vPanics(false)
	vUnwind(40)
	tmax := vStr("tmax", "5", "10", "20")
	pmax := vStr("pmax", "", "10", "40")
	par := configs.QueueConfig{Name: "par", Parent: true,
		ChildTemplate: configs.ChildTemplate{Resources: configs.Resources{Max: map[string]string{"memory": tmax}}}}
	if pmax != "" {
		par.Resources = configs.Resources{Max: map[string]string{"memory": pmax}}
	}
	conf := configs.PartitionConfig{
		Name: "default",
		Queues: []configs.QueueConfig{{
			Name: "root", Parent: true, SubmitACL: "*",
			Queues: []configs.QueueConfig{par},
		}},
		PlacementRules: []configs.PlacementRule{{Name: "provided", Create: true}},
	}
	pc, err := newPartitionContext(conf, "rm-1", nil, false)
	vAssert(err == nil && pc != nil, "world: partition created")
	pc.nodes = &vNodeColl{policy: pc.nodes.GetNodeSortingPolicy()}
	ncap := vRange("nodecap", 1, 60)
	nerr := pc.AddNode(objects.NewNode(&si.NodeInfo{NodeID: "node-1", SchedulableResource: resources.NewResourceFromMap(map[string]resources.Quantity{"memory": resources.Quantity(ncap)}).ToProto()}))
	vAssert(nerr == nil, "world: node added")
	app := objects.NewApplication(&si.AddApplicationRequest{ApplicationID: "app-1", QueueName: "root.par.dyn", PartitionName: "default"},
		security.UserGroup{User: "u1", Groups: []string{"g1"}}, &vRecorder{}, "rm-1")
	aerr := pc.AddApplication(app)
	vAssert(aerr == nil, "world: application accepted into the rule-created queue")
	q := pc.GetQueue("root.par.dyn")
	p := pc.GetQueue("root.par")
	vAssert(q != nil && p != nil, "world: dynamic queue exists")
	plim := ncap // the parent's effective limit: its own maximum capped by the cluster size
	if pmax != "" && vQty(pmax) < plim {
		plim = vQty(pmax)
	}
	limit := vQty(tmax)
	if plim < limit {
		limit = plim
	}
	qm := q.GetMaxResource()
	vAssert(qm != nil && int64(qm.Resources["memory"]) == limit && len(qm.Resources) == 1,
		"Q7 the child template's maximum, capped by the ancestors, is in force on the rule-created queue")
	// the partition applies an application-tag quota through SetResources on the unmanaged queue
	if vBool("tagquota") {
		tq := vRange("tagmem", 1, 50)
		q.SetResources(nil, resources.NewResourceFromMap(map[string]resources.Quantity{"memory": resources.Quantity(tq)}))
		limit = tq
		if plim < limit {
			limit = plim
		}
		qm2 := q.GetMaxResource()
		vAssert(qm2 != nil && int64(qm2.Resources["memory"]) == limit, "Q7 a quota set from an application tag replaces the template maximum")
	}
	// effective limit never looser than the parent's
	pm := p.GetMaxResource()
	vAssert(pm != nil && int64(pm.Resources["memory"]) == plim, "Q7 the parent's effective maximum is its own capped by the cluster size")
	// two increments decided by the scheduler
	a1 := vRange("ask1", 0, 60)
	a2 := vRange("ask2", 0, 60)
	e1 := q.TryIncAllocatedResource(resources.NewResourceFromMap(map[string]resources.Quantity{"memory": resources.Quantity(a1)}))
	e2 := q.TryIncAllocatedResource(resources.NewResourceFromMap(map[string]resources.Quantity{"memory": resources.Quantity(a2)}))
	used := int64(q.GetAllocatedResource().Resources["memory"])
	pused := int64(p.GetAllocatedResource().Resources["memory"])
	want := int64(0)
	if e1 == nil {
		want += a1
	}
	if e2 == nil {
		want += a2
	}
	vAssert(used == want && pused == want, "Q7 usage of the queue and its parent is the sum of the accepted increments")
	vAssert(used <= limit, "Q7 accepted increments never take the rule-created queue above its maximum")
	vAssert(pused <= plim, "Q7 accepted increments never take the parent above its maximum or the cluster size")
	if e1 != nil {
		vAssert(a1 > limit, "Q7 an increment is refused only when it does not fit")
	}
	vReach("end")
}

// M2: the max-applications value of the parent's child template is in force on a rule-created queue, and an
// application tag replaces it; a second application is admitted to run only while the count stays within it.
func VerifC11_TemplateMaxAppsOnDynamicQueue() {
	vPanics(false)
	vUnwind(40)
	tapps := vRange("tapps", 1, 3)
	tag := vStr("tag", "", "1", "2", "3")
	conf := configs.PartitionConfig{
		Name: "default",
		Queues: []configs.QueueConfig{{
			Name: "root", Parent: true, SubmitACL: "*",
			Queues: []configs.QueueConfig{{Name: "par", Parent: true, ChildTemplate: configs.ChildTemplate{MaxApplications: uint64(tapps)}}},
		}},
		PlacementRules: []configs.PlacementRule{{Name: "provided", Create: true}},
	}
	pc, err := newPartitionContext(conf, "rm-1", nil, false)
	vAssert(err == nil && pc != nil, "world: partition created")
	tags := map[string]string{}
	if tag != "" {
		tags["namespace.resourcemaxapps"] = tag
	}
	app := objects.NewApplication(&si.AddApplicationRequest{ApplicationID: "app-1", QueueName: "root.par.dyn", PartitionName: "default", Tags: tags},
		security.UserGroup{User: "u1", Groups: []string{"g1"}}, &vRecorder{}, "rm-1")
	aerr := pc.AddApplication(app)
	vAssert(aerr == nil, "world: application accepted into the rule-created queue")
	q := pc.GetQueue("root.par.dyn")
	vAssert(q != nil, "world: dynamic queue exists")
	want := uint64(tapps)
	if tag != "" {
		want = uint64(vQtyApps(tag))
	}
	vAssert(q.GetMaxApps() == want, "M2 the template's max-applications, replaced by the application tag when present, is in force on the rule-created queue")
	vReach("end")
}

func vQtyApps(s string) int64 {
	switch s {
	case "1":
		return 1
	case "2":
		return 2
	case "3":
		return 3
	}
	return 0
}
