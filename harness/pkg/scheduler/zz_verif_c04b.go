//go:build verif

package scheduler

import (
	"github.com/apache/yunikorn-core/pkg/common/resources"
	"github.com/apache/yunikorn-core/pkg/scheduler/objects"
)

// P4 / R5 at partition level: an ask that holds a reservation is reported as bound by the RM itself (shim placed it);
// the reserved-allocation pass then finds a stale reservation: it must drop it from application, node, queue and
// partition counter, and must NOT announce the ask again as a new allocation on the reserved node.
func VerifC04_StaleReservationDroppedNotAnnounced() {
	vPanics(false)
	vUnwind(40)
	// concrete capacities (large), symbolic ask sizes: the lemma does not depend on how full the nodes are
	w := vPartition(0)
	big := resources.NewResource()
	for i := 0; i < vNK(); i++ {
		big.Resources[vKeys[i]] = resources.Quantity(1 << 42)
	}
	for _, id := range []string{"node-1", "node-2"} {
		n := objects.NewNode(nodeInfo(id, big))
		vAssert(w.pc.AddNode(n) == nil, "world: node added")
		w.nodes = append(w.nodes, n)
	}
	app := w.addApp("app-1")
	// one resource type of symbolic size: the lemma is about reservation bookkeeping, not about sizes
	res := resources.NewResourceFromMap(map[string]resources.Quantity{vKeys[0]: resources.Quantity(vRange("ask.k0", 1, 1000))})
	ask := objects.NewAllocationFromSI(vSIAlloc("ask-1", "app-1", "", res))
	_, _, e1 := w.pc.UpdateAllocation(ask)
	vAssert(e1 == nil && app.GetAllocationAsk("ask-1") == ask, "world: ask accepted")
	w.pc.reserve(app, w.nodes[0], ask)
	// the reservation is only taken when the ask fits the empty node
	vAssume(w.pc.getReservationCount() == 1 && w.nodes[0].IsReserved() && app.NodeReservedForAsk("ask-1") == "node-1")
	// the RM reports the same ask as bound on node-2
	_, _, e2 := w.pc.UpdateAllocation(objects.NewAllocationFromSI(vSIAlloc("ask-1", "app-1", "node-2", res)))
	vAssume(e2 == nil && ask.IsAllocated())
	vAssert(ask.GetNodeID() == "node-2", "world: the ask is bound to node-2 by the RM")
	// another ask keeps the scheduling cycle going
	other := objects.NewAllocationFromSI(vSIAlloc("ask-2", "app-1", "", resources.NewResourceFromMap(map[string]resources.Quantity{vKeys[0]: 1})))
	_, _, e3 := w.pc.UpdateAllocation(other)
	vAssert(e3 == nil, "world: second ask accepted")

	r := w.pc.tryReservedAllocate()
	vAssert(r == nil || r.Request != ask, "P an ask that is already bound is never handed to the shim as a new allocation again")
	vAssert(ask.GetNodeID() == "node-2" && ask.IsAllocated(), "P the bound ask stays bound where the RM put it")
	vAssert(w.nodes[0].GetAllocation("ask-1") == nil && w.nodes[1].GetAllocation("ask-1") == ask, "P the ask is listed on exactly the node it is bound to")
	vAssert(app.NodeReservedForAsk("ask-1") == "" && !w.nodes[0].IsReserved() && w.pc.getReservationCount() == 0, "R5 the stale reservation is gone from the application, the node and the partition counter")

	vReach("end")
}
