//go:build verif

package scheduler

import (
	"github.com/apache/yunikorn-core/pkg/scheduler/objects"
)

// S3: a node registration that is rejected (duplicate node id) leaves the node list, the node's capacity, the
// partition total and the root queue maximum exactly as they were
func VerifC13_DuplicateNodeRejectedCleanly() {
	vPanics(false)
	vUnwind(40)
	w := vPartition(1)
	total0 := vecOf(w.pc.GetTotalPartitionResource())
	rootMax0 := vecOf(w.pc.GetQueue("root").GetMaxResource())
	cap0 := vecOf(w.nodes[0].GetCapacity())
	dup := objects.NewNode(nodeInfo("node-1", vResPos("dup.cap")))
	err := w.pc.AddNode(dup)
	vAssert(err != nil, "S3 registering a node id that is already registered is rejected")
	vAssert(w.pc.GetTotalNodeCount() == 1 && w.pc.GetNode("node-1") == w.nodes[0], "S3 a rejected registration leaves the node list alone")
	vAssert(vecOf(w.nodes[0].GetCapacity()) == cap0, "S3 a rejected registration leaves the registered node's capacity alone")
	vAssert(vecOf(w.pc.GetTotalPartitionResource()) == total0, "S3 a rejected registration leaves the partition total alone")
	vAssert(vecOf(w.pc.GetQueue("root").GetMaxResource()) == rootMax0, "S3 a rejected registration leaves the root queue maximum alone")
	vReach("end")
}
