//go:build verif

package scheduler

import (
	"github.com/apache/yunikorn-core/pkg/common/configs"
)

// A0: a reload that is rejected changes nothing observable. The placement-rule build is the step that can still
// reject a configuration the validator accepted (a tag rule without a tag name): node sorting policy, queues, queue
// limits and the active rules must be as before.
func VerifC16_RejectedReloadChangesNothing() {
	vPanics(false)
	vUnwind(40)
	mk := func(policy string, rules []configs.PlacementRule, max string, extraQueue bool) configs.PartitionConfig {
		qs := []configs.QueueConfig{{Name: "prod", Resources: configs.Resources{Max: map[string]string{"memory": max}}}}
		if extraQueue {
			qs = append(qs, configs.QueueConfig{Name: "extra"})
		}
		return configs.PartitionConfig{Name: "default", Queues: []configs.QueueConfig{{Name: "root", Parent: true, SubmitACL: "*", Queues: qs}},
			PlacementRules: rules, NodeSortPolicy: configs.NodeSortingPolicy{Type: policy}}
	}
	pols := []string{"fair", "binpacking"}
	p1 := pols[vChoice("policy.old", 2)]
	p2 := pols[vChoice("policy.new", 2)]
	vSplit("policy.old")
	vSplit("policy.new")
	good := []configs.PlacementRule{{Name: "provided", Create: false}}
	pc, err := newPartitionContext(mk(p1, good, "10", false), "rm-1", nil, false)
	vAssert(err == nil && pc != nil, "world: partition created")
	polBefore := pc.GetNodeSortingPolicyType()
	rulesBefore := len(pc.getPlacementManager().GetRulesDAO())
	bad := []configs.PlacementRule{{Name: "tag", Value: ""}} // a tag rule needs the tag name
	rerr := pc.updatePartitionDetails(mk(p2, bad, "20", true))
	vAssert(rerr != nil, "A0 a configuration whose placement rules cannot be built is rejected")
	vAssert(pc.GetNodeSortingPolicyType() == polBefore, "A0 a rejected reload leaves the node sorting policy alone")
	vAssert(pc.GetQueue("root.extra") == nil && pc.GetQueue("root.prod") != nil, "A0 a rejected reload creates and removes no queue")
	max := pc.GetQueue("root.prod").GetMaxResource()
	vAssert(max != nil && int64(max.Resources["memory"]) == 10, "A0 a rejected reload leaves the queue limits alone")
	vAssert(len(pc.getPlacementManager().GetRulesDAO()) == rulesBefore, "A0 a rejected reload leaves the active placement rules alone")
	vReach("end")
}
